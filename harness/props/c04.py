"""C04 - cross-tabulation is a true contingency table under any zone / category selection.

M  Crosstab.tla: every raster of the small scopes is an initial state; the zone loop of _crosstab_numpy and the
   category loop of _single_zone_crosstab_2d (running cat_start, zone_cat_breaks) / _3d run as a state machine;
   CatStartIsOffset, RowLabelsOwnZone, IsContingency, RestrictionIsSubmatrix, RowsSumTo100 ... are invariants.
   The positive model is the code of today, variant {"dropneginf","catstart","labels"} (fixes 7d7d291, a1fb154,
   2bd4c42), for every zone_ids / cat_ids list.  Each pre-fix variant (one repair taken out) is a negative twin
   that TLC must refute, next to five other twins.
R  the same complete enumerations through the real zonal.crosstab (2-D count / percentage, zone_ids / cat_ids
   subsets, permutations, absent ids, nodata; 3-D with the seven aggregates), the per-zone helper recorded;
   Crosstab_Judge.tla decides every observed table.
T  seeded larger rasters (negative / fractional ids, dtypes, value scale) and a single-chunk dask sample.
"""
import itertools
import json
import os
import random

from harness import core
from harness.props import zonal_util as U
from harness.props.zonal_util import NINF, PINF, NAN, NONE, R

ZC = [2, 4, 6, NAN]                    # zones 1, 2, 3 and NaN
VC = [0, 1, 2, NAN]                    # categories 0, 1, 2 and NaN
ZIDS = [2, 4, 6, 14]                   # + the absent zone 7
CIDS = [0, 1, 2, 7]                    # + the absent category 7
ZLISTS = U.lists_over(ZIDS)
CLISTS = U.lists_over(CIDS)
AGG3 = ["mean", "max", "min", "sum", "std", "var", "count"]
INV = ["TypeOK", "CatStartIsOffset", "ZoneValsAreZone", "WellFormed", "RowsAndColsOK", "RowLabelsOwnZone",
       "IsContingency", "RestrictionIsSubmatrix", "RowsSumTo100", "MachineIsAlg"]
TODAY = '{"dropneginf", "catstart", "labels"}'     # /repo today (after fixes 7d7d291, a1fb154, 2bd4c42)
CODEVARIANT = TODAY


# ------------------------------------------------------------------------------------------- M
def mc(ctx, name, dim, rasters, sels, cats="<<>>", variant=TODAY, mut="none", expect="ok", inv=None, small=False):
    cfg = dict(spec="Spec", invariants=inv or INV, constants=dict(
        DIM=dim, Rasters=R(rasters), CATS=R(cats), Selections=R(sels), VARIANT=R(variant), MUT=mut))
    return U.checked_mc(ctx, "Crosstab", cfg, name, expect, small=small)


def model_checks(ctx):
    za, va = U.tla_set(ZC), U.tla_set(VC)
    zan = "{NINF, 2, 4, NAN}"
    lz, lc = "ListsOver({2, 4, 6, 14})", "ListsOver({0, 1, 2, 7})"
    both = '{"count", "percentage"}'

    def req(l):
        return "[all |-> FALSE, ids |-> %s]" % l
    main = ('Sels({NONE, 1}, {AllReq, %s}, {AllReq, %s, %s}, %s)'
            % (req("<<6, 2, 14>>"), req("<<2>>"), req("<<1, 7, 0>>"), both if ctx.tier == "thorough" else '{"percentage"}'))
    hard = 'Sels({1}, {AllReq, %s}, {AllReq, %s, %s}, {"percentage"})' % (req("<<6, 2>>"), req("<<2>>"), req("<<1, 0>>"))
    every_list = ('(Sels({1}, {AllReq}, Reqs(%s), %s) \\cup Sels({NONE}, Reqs(%s), {AllReq}, {"count"}) \\cup '
                  'Sels({NONE}, Reqs({<<6, 2>>, <<4>>, <<14, 6, 4>>}), Reqs({<<1>>, <<2, 0>>, <<7, 2>>}), %s))'
                  % (lc, both, lz, both))
    thorough = ctx.tier == "thorough"
    # quick: four of the seven aggregates in the model (R runs all seven on every enumerated 3-D raster)
    aggs3 = '{"mean", "max", "min", "sum", "std", "var", "count"}' if thorough else '{"mean", "max", "std", "count"}'
    s3d = ('Sels({NONE, 2}, {AllReq, %s}, {AllReq, %s, %s}, %s)'
           % (req("<<4, 2>>"), req("<<3>>"), req("<<3, 9, 5>>"), aggs3))
    # the code of today: every invariant holds, for proper cat_ids subsets and non-ascending zone_ids too
    mc(ctx, "today_n3", 2, "AllRasters2D(3, %s, %s)" % (za, va), main)
    mc(ctx, "today_neginf_n3", 2, "AllRasters2D(3, %s, {0, 1, NAN})" % zan, hard, small=True)
    mc(ctx, "today_3d_n2", 3, "AllRasters3D(2, {2, 4, NAN}, {0, 2, NAN})", s3d, cats="<<5, 3>>")
    mc(ctx, "today_every_list_n2", 2, "AllRasters2D(2, %s, %s)" % (za, va), every_list)
    mc(ctx, "today_3d_onelayer_n3", 3, "AllRasters2D(3, {2, 4, NAN}, {0, 2, NAN})",       # one layer: vs = <<v>>
       'Sels({NONE, 2}, {AllReq, %s}, {AllReq, %s}, %s)' % (req("<<4, 2>>"), req("<<9, 5>>"), aggs3), cats="<<5>>")
    if thorough:
        mc(ctx, "today_multiset5", 2,
           "MultisetRasters2D(5, %s, %s, <<4, 1, 5, 2, 3>>)" % (U.tla_seq(ZC), U.tla_seq(VC)), hard)
        mc(ctx, "today_n4", 2, "AllRasters2D(4, %s, %s)" % (za, va),
           'Sels({1}, {AllReq, %s}, {AllReq, %s}, %s)' % (req("<<6, 2>>"), req("<<2, 7, 0>>"), both))
        mc(ctx, "today_every_list_n3", 2, "AllRasters2D(3, {2, 4, 6}, %s)" % va, every_list)
        mc(ctx, "today_multiset6", 2,
           "MultisetRasters2D(6, %s, %s, <<4, 1, 5, 2, 6, 3>>)" % (U.tla_seq(ZC), U.tla_seq(VC)), hard)
        mc(ctx, "today_3d_n3", 3, "AllRasters3D(3, {2, 4}, {0, 2, NAN})", s3d, cats="<<5, 3>>")
        mc(ctx, "today_3d_neginf_n2", 3, "AllRasters3D(2, {NINF, 2, 4}, {0, 2, NAN})", s3d, cats="<<5, 3>>")
    # negative twins.  (1) the pre-fix variants: one repair taken out, TLC must find the defect of DESIGN section 8
    r = mc(ctx, "prefix_cat_subsets_n2", 2, "AllRasters2D(2, %s, %s)" % (za, va),
           'Sels({NONE}, {AllReq}, Reqs(%s), {"count"})' % lc, variant='{"dropneginf", "labels"}', expect="violation")
    ctx.note("M: without repair 'catstart' (a1fb154) TLC refutes %s for a proper cat_ids subset" % r.invariant_violated)
    r = mc(ctx, "prefix_zone_orders_n2", 2, "AllRasters2D(2, %s, %s)" % (za, va),
           'Sels({NONE}, Reqs(%s), {AllReq}, {"count"})' % lz, variant='{"dropneginf", "catstart"}', expect="violation")
    ctx.note("M: without repair 'labels' (2bd4c42) TLC refutes %s for zone_ids in non-ascending order" % r.invariant_violated)
    r = mc(ctx, "prefix_neginf_n2", 2, "AllRasters2D(2, %s, {0, 1, NAN})" % zan,
           'Sels({NONE}, {AllReq}, {AllReq}, {"count"})', variant='{"catstart", "labels"}', expect="violation")
    ctx.note("M: without repair 'dropneginf' (7d7d291) TLC refutes %s as soon as a zone cell is -inf" % r.invariant_violated)
    # (2) vacuity guards
    small = "AllRasters2D(3, {2, 4, NAN}, {0, 1, NAN, PINF})"
    for mut in ("lastcell", "noinf", "nosort", "startsel"):
        mc(ctx, "neg_" + mut, 2, small, 'Sels({NONE, 1}, {AllReq, %s}, {AllReq}, %s)' % (req("<<4, 14>>"), both),
           mut=mut, expect="violation")
    mc(ctx, "neg_totalsel", 2, small, 'Sels({NONE}, {AllReq}, {[all |-> FALSE, ids |-> <<1>>]}, {"percentage"})',
       mut="totalsel", expect="violation")
    ctx.exhaustive = True


# ------------------------------------------------------------------------------------------- jobs
def pick_dtypes(rng, z, layers, vs):
    allv = [c for l in layers for c in l]
    return U.pick_dtype(rng, z, 2, U.ZDTYPES), U.pick_dtype(rng, allv, vs, U.VDTYPES)


def benign_cat_list(rng, universe):
    """a cat_ids list outside the class of defect 2: every category it omits is larger than every one it keeps
    (plus absent ids), in any order."""
    k = rng.randrange(0, len(universe) + 1)
    keep = sorted(universe)[:k] + [c for c in (7, 97) if c not in universe and rng.random() < 0.4]
    rng.shuffle(keep)
    return keep


def selection(rng, kind, zlists, clists, present_z, present_c):
    """kind: 'plain' (None/None) | 'benign' (outside both former defect classes) | 'cats' (any cat list, ascending
    zones) | 'zones' (any zone list, benign cats) | 'mixed' (any zone list, any cat list)."""
    zall, call, zids, cids = True, True, [], []
    if kind == "plain":
        return zall, zids, call, cids
    if kind in ("benign", "cats"):
        if rng.random() < 0.7:
            zall, zids = False, sorted(rng.choice(zlists))
    else:
        zall, zids = False, list(rng.choice(zlists))
    if kind in ("benign", "zones"):
        if rng.random() < 0.7:
            call, cids = False, benign_cat_list(rng, present_c)
    else:
        call, cids = False, list(rng.choice(clists))
    return zall, zids, call, cids


def crosstab_job(rng, z, layers, H, W, kind, dim=2, vs=1, nds=(NONE, NONE, 0, 1, 2, NAN), zlists=ZLISTS,
                 clists=CLISTS, cats=None, aggs=("count", "percentage"), backend="numpy", tag="", layer=0):
    zdt, vdt = pick_dtypes(rng, z, layers, vs)
    if dim == 3 and vdt == "float32":
        vdt = "float64"                   # float32 means / variances are outside the 1e-9 bridge
    nd = rng.choice(list(nds))
    present_z = sorted({c for c in z if U.finite(c)})
    if dim == 2:
        present_c = sorted({c for c in layers[0] if U.finite(c) and c != nd})
    else:
        present_c = list(cats)
    zall, zids, call, cids = selection(rng, kind, zlists, clists, present_z, present_c)
    if dim == 3 and not call:
        cids = [c for c in cids]          # labels, unscaled
    job = {"fn": "crosstab", "dim": dim, "H": H, "W": W, "z": list(z), "v": [list(l) for l in layers], "vs": vs,
           "zdt": zdt, "vdt": vdt, "cats": list(cats or []), "layer": layer, "nd": nd, "zall": zall, "zids": zids,
           "call": call, "cids": cids, "agg": rng.choice(list(aggs)), "backend": backend,
           "steps": backend == "numpy", "tag": tag}
    if dim == 3 and layer == 0 and rng.random() < 0.5:
        job["layer_explicit"] = True
    return U.vary(rng, job, [c for l in layers for c in l])


KINDS = ["plain", "benign", "cats", "zones", "mixed"]
LAYERS = [0, 1, 2, -1, -2]           # category dimension first, middle, last (3-D)


def enum_jobs_2d(seed, n, zalpha, valpha, per_raster, tag):
    jobs, k, shp = [], 0, U.shapes(n)
    for z in itertools.product(zalpha, repeat=n):
        for v in itertools.product(valpha, repeat=n):
            rng = random.Random(seed * 1000003 + k)
            H, W = shp[k % len(shp)]
            for t in range(per_raster):
                kind = KINDS[(k + t) % len(KINDS)] if per_raster < len(KINDS) else KINDS[t % len(KINDS)]
                jobs.append(crosstab_job(rng, z, [v], H, W, kind, tag=tag))
            k += 1
    return jobs


def multiset_jobs_2d(seed, n, zalpha, valpha, tag):
    """every multiset of n (zone, category) cells, each laid out by a seeded shuffle."""
    pairs = [(a, b) for a in zalpha for b in valpha]
    jobs, k, shp = [], 0, U.shapes(n)
    for ms in itertools.combinations_with_replacement(range(len(pairs)), n):
        rng = random.Random(seed * 1000003 + k)
        cells = [pairs[i] for i in ms]
        rng.shuffle(cells)
        H, W = shp[k % len(shp)]
        jobs.append(crosstab_job(rng, [c[0] for c in cells], [[c[1] for c in cells]], H, W, KINDS[k % len(KINDS)],
                                 tag=tag))
        k += 1
    return jobs


def enum_jobs_3d(seed, n, zalpha, valpha, cats, tag, every_agg):
    jobs, k, shp = [], 0, U.shapes(n)
    clists = U.lists_over(list(cats) + [9])
    zl = [l for l in U.lists_over([2, 4, 14])]
    for z in itertools.product(zalpha, repeat=n):
        for vv in itertools.product(itertools.product(valpha, repeat=n), repeat=len(cats)):
            rng = random.Random(seed * 1000003 + k)
            H, W = shp[k % len(shp)]
            for agg in (AGG3 if every_agg else [AGG3[k % 7]]):
                kind = KINDS[(k + len(agg)) % len(KINDS)]
                j = crosstab_job(rng, z, vv, H, W, kind, dim=3, nds=(NONE, NONE, 2, NAN), zlists=zl, clists=clists,
                                 cats=cats, aggs=(agg,), tag=tag, layer=LAYERS[(k + len(jobs)) % 5])
                if not j["call"]:
                    j["cids"] = list(rng.choice(clists))
                jobs.append(j)
            k += 1
    return jobs


def matrix_jobs(seed, nrasters, tag="layout_matrix"):
    """the systematic matrix: every (zones layout, values layout) pair on the same seeded rasters with at least 2 rows
    and 2 columns (2-D and 3-D); for 3-D the position of the category dimension rotates over first / middle / last."""
    base = [j for j in random_jobs(seed + 17, 6 * nrasters) if j["H"] > 1 and j["W"] > 1][:nrasters]
    jobs = []
    for k, b in enumerate(base):
        for a, zl in enumerate(U.LAYOUTS):
            for c, vl in enumerate(U.LAYOUTS):
                j = dict(b)
                j.update(zlay=zl, vlay=vl, tag=tag)
                if j["dim"] == 3:
                    j["layer"] = LAYERS[(k + a + c) % 5]
                jobs.append(j)
    return jobs


TINY_IDS = {"0": -3e-9, "2": 0.0, "4": 2e-9, "6": 5e-9}     # code -> id; 6 is never a cell (requested only)


def close_id_jobs(seed, count, tag="close_ids"):
    """2-D crosstab with explicit zone_ids / cat_ids where the zone ids and the categories lie closer together than
    any float tolerance would separate (large adjacent integers, half ids, zone ids a few 1e-9 apart around 0);
    the request lists include ABSENT ids right next to present ones."""
    rng = random.Random(seed * 7919 + 19)
    jobs = []
    for k in range(count):
        H, W = rng.choice([(2, 3), (3, 3), (2, 2), (3, 4), (1, 6), (4, 2)])
        n = H * W
        tiny = k % 3 == 2
        if tiny:
            zpool, zabsent = [0, 2, 4], [6]
        else:
            base = rng.choice([200000, 400000, 888880])
            step = rng.choice([2, 2, 1])
            zpool, zabsent = [base, base + step, base + 2 * step], [base + 3 * step, base - step]
        cbase = rng.choice([100000, 100000, 300000, 3])
        cpool, cabsent = [cbase, cbase + 1, cbase + 2], [cbase + 3, cbase - 1]
        zused = rng.sample(zpool, rng.choice([2, 3]))
        cused = rng.sample(cpool, rng.choice([2, 3]))
        z = [NAN if rng.random() < 0.1 else rng.choice(zused) for _c in range(n)]
        v = [NAN if rng.random() < 0.1 else rng.choice(cused) for _c in range(n)]
        zc, cc = zpool + zabsent, cpool + cabsent
        zl = [[x] for x in zc] + [rng.sample(zc, rng.randrange(2, len(zc) + 1)) for _ in range(3)]
        cl = [[x] for x in cc] + [rng.sample(cc, rng.randrange(2, len(cc) + 1)) for _ in range(3)]
        j = crosstab_job(rng, z, [v], H, W, "mixed", nds=(NONE, NONE, NAN, cused[0]), zlists=zl, clists=cl, tag=tag)
        if tiny:
            j["zmap"] = dict(TINY_IDS)
            j["zdt"] = "float64"
        jobs.append(j)
    return jobs


def seq_jobs(seed, count, tag="sequence"):
    """call sequences on the SAME DataArray objects: crosstab, edit zones and/or values in place, crosstab again
    (same or other agg / selection), twice.  share = zones: same zones object, new values object per call; values:
    vice versa."""
    rng = random.Random(seed * 7919 + 13)
    base = [j for j in random_jobs(seed + 31, 4 * count) if j["H"] > 1][:count]
    out = []
    for b in base:
        b = dict(b, zdt="float64", vdt="float64", tag=tag)
        if "nd_raw" in b:
            del b["nd_raw"]
            b["nd"] = NONE
        W, dim = b["W"], b["dim"]
        zpool = sorted({c for c in b["z"] if U.finite(c)}) + [6, NAN]
        flat = [c for l in b["v"] for c in l if U.finite(c)]
        vpool = sorted(set(flat))[:6] + [NAN]
        steps, z, layers = [b], list(b["z"]), [list(l) for l in b["v"]]
        for _k in range(2):
            what = rng.choice(["z", "z", "v", "zv"])
            if "z" in what:
                z = U.mutate_codes(rng, z, W, zpool)
            if "v" in what and vpool:
                layers = [U.mutate_codes(rng, l, W, vpool) for l in layers]
            nj = dict(steps[-1], z=list(z), v=[list(l) for l in layers])
            if rng.random() < 0.5:      # other agg / selection on the edited objects
                present = sorted({c for c in z if U.finite(c)})
                nj["zall"] = rng.random() < 0.4
                nj["zids"] = [] if nj["zall"] else rng.choice([present[:1], present[::-1], present[1:] + [998]])
                if dim == 2:
                    uni = sorted({c for c in layers[0] if U.finite(c) and c != nj["nd"]})
                    nj["call"] = rng.random() < 0.5
                    nj["cids"] = [] if nj["call"] else rng.sample(uni + [997], rng.randrange(0, len(uni) + 2))
                    nj["agg"] = rng.choice(["count", "percentage"])
                else:
                    nj["agg"] = rng.choice(AGG3)
            steps.append(nj)
        out.append({"fn": "seq", "share": rng.choice(["both", "both", "zones", "values"]), "steps": steps,
                    "backend": "numpy", "tag": tag})
    return out


def random_jobs(seed, count, backend="numpy", tag="random"):
    rng = random.Random(seed * 7919 + (4 if backend == "numpy" else 5))
    jobs = []
    while len(jobs) < count:
        H, W = rng.choice([(2, 3), (3, 4), (4, 4), (5, 6), (6, 5), (7, 7), (8, 8), (1, 9), (8, 2), (2, 2), (3, 3)])
        n = H * W
        dim = rng.choice([2, 2, 3])
        vs = rng.choice([1, 1, 2])
        pool = rng.sample([-6, -3, -2, 0, 1, 4, 5, 8, 14, 20], 5)
        if rng.random() < 0.3:
            pool = rng.sample([0, 2, 4, 8, 14, 20, 40, 510], 5)          # non-negative integer ids (uint8 zones)
        zk = rng.choice(["finite", "nan", "nan", "posinf", "neginf" if rng.random() < 0.3 else "nan"])
        z = []
        for _c in range(n):
            x = rng.random()
            if zk != "finite" and x < 0.12:
                z.append(NAN)
            elif zk == "posinf" and x < 0.2:
                z.append(PINF)
            elif zk == "neginf" and x < 0.2:
                z.append(NINF)
            else:
                z.append(rng.choice(pool[:rng.choice([2, 3, 5])]))
        present = sorted({c for c in z if U.finite(c)})
        if not present:
            continue
        zcand = present + [c for c in pool if c not in present][:1] + [998]
        zlists = [rng.sample(zcand, rng.randrange(0, min(len(zcand), 5) + 1)) for _ in range(6)]
        if backend == "dask":
            zlists = [l for l in zlists if set(l) & set(present)] or [present[:1]]

        clean = rng.random() < 0.35            # no NaN / inf among the values: integer dtypes become eligible

        def cell(vals):
            x = 1.0 if clean else rng.random()
            if x < 0.1:
                return NAN
            if x < 0.14:
                return rng.choice([PINF, NINF])
            return rng.choice(vals)
        nonneg = rng.random() < 0.4                                       # unsigned value dtypes
        if dim == 2:
            cvals = [c * (vs if rng.random() < 0.5 else 1)
                     for c in rng.sample(range(0 if nonneg else -4, 9), rng.choice([2, 3, 5]))]
            layers = [[cell(cvals) for _c in range(n)]]
            ccand = sorted(set(cvals)) + [17]
            clists = [rng.sample(ccand, rng.randrange(0, len(ccand) + 1)) for _ in range(6)]
            nds = [NONE, NONE, NAN, cvals[0], cvals[-1], 17]
            aggs, cats = ("count", "percentage"), None
        else:
            nl = rng.choice([1, 1, 2, 3, 4])        # a layer dimension of length exactly 1 included
            cats = rng.sample([1, 2, 3, 5, 7, 9], nl)
            vals = [c * (vs if rng.random() < 0.5 else 1) for c in range(0 if nonneg else -9, 10)]
            layers = [[cell(vals) for _c in range(n)] for _l in range(nl)]
            ccand = list(cats) + [11]
            clists = [rng.sample(ccand, rng.randrange(0, len(ccand) + 1)) for _ in range(6)]
            nds = [NONE, NONE, NAN, rng.choice(vals), 0]
            aggs = tuple(AGG3) if backend == "numpy" else ("count",)
        kind = rng.choice(KINDS)
        j = crosstab_job(rng, z, layers, H, W, kind, dim=dim, vs=vs, nds=nds, zlists=zlists, clists=clists,
                         cats=cats, aggs=aggs, backend=backend, tag=tag, layer=rng.choice(LAYERS) if dim == 3 else 0)
        if dim == 3 and not j["call"]:
            j["cids"] = list(rng.choice(clists))
        if backend == "dask" and not j["zall"] and not (set(j["zids"]) & set(present)):
            j["zids"] = present[:1]
        jobs.append(j)
    return jobs


# ------------------------------------------------------------------------------------------- verdicts
def cat_universe(case):
    if case["dim"] == 3:
        return list(case["cats"])
    nd = case["nd"]
    return sorted({c for c in case["vs"][0] if U.finite(c) and c != nd})


def in_cat_subset_class(case):
    """2-D, cat_ids omits an existing category that is smaller than a selected one (defect 2 of DESIGN section 8)."""
    if case["dim"] != 2 or case["call"]:
        return False
    uni = cat_universe(case)
    sel = [c for c in uni if c in case["cids"]]
    return any(o < s for o in uni if o not in sel for s in sel)


def in_zone_order_class(case):
    """the requested zone_ids that exist are not in ascending order (defect 3 of DESIGN section 8)."""
    if case["zall"]:
        return False
    present = {c for c in case["z"] if U.finite(c)}
    req = [c for c in case["zids"] if c in present]
    return req != sorted(req)


CLASS_OF_REPAIR = {"like_without_dropneginf": "crosstab:neginf-zone",
                   "like_without_labels": "crosstab:zone_ids-non-ascending",
                   "like_without_catstart": "crosstab:cat_ids-proper-subset"}


def classify(case, clause, diagnosis=None):
    """stable key of a rejected case.  Predicates on the CASE select the known classes (the three defects that were
    repaired by 7d7d291 / 2bd4c42 / a1fb154).  TLC's diagnosis (which single repair, taken out of the transcription,
    reproduces exactly the observed table) must agree: a case of a known class that fails in a way none of the three
    old defects explains keeps the generic key crosstab:<clause>, so that a new defect is not filed under an old one."""
    classes = []
    if NINF in case["z"]:
        classes.append("crosstab:neginf-zone")
    if in_zone_order_class(case):
        classes.append("crosstab:zone_ids-non-ascending")
    if in_cat_subset_class(case):
        classes.append("crosstab:cat_ids-proper-subset")
    if not classes:
        return "crosstab:%s" % clause
    if diagnosis in CLASS_OF_REPAIR:
        k = CLASS_OF_REPAIR[diagnosis]
        return k if k in classes else "crosstab:%s" % clause
    if diagnosis == "unexplained":
        # without a recorded argsort (dask) the pre-fix slices of a -inf raster depend on numpy's order among equal
        # zones: the model cannot reproduce them, the predicate alone decides
        if "crosstab:neginf-zone" in classes and case["job"].get("backend") == "dask":
            return "crosstab:neginf-zone"
        return "crosstab:%s" % clause
    return classes[0]


def outside_domain(case):
    """3-D min / max over an empty valid set: NumPy's reduction raises (DESIGN C04: outside the domain)."""
    if case["dim"] != 3 or case["agg"] not in ("min", "max") or "error" not in case:
        return False
    present = {c for c in case["z"] if U.finite(c)}
    zsel = present if case["zall"] else present & set(case["zids"])
    lsel = [k for k, c in enumerate(case["cats"]) if case["call"] or c in case["cids"]]
    nd = case["nd"]
    for zz in zsel:
        for k in lsel:
            if not any(a == zz and U.finite(b) and b != nd for a, b in zip(case["z"], case["vs"][k])):
                return True
    return False


def nontrivial(case):
    present = {c for c in case["z"] if U.finite(c)}
    invalid = any((not U.finite(b)) or b == case["nd"] for l in case["vs"] for b in l)
    if len(present) < 2 or not invalid:
        return False
    uni = cat_universe(case)
    zreq = [c for c in case["zids"] if c in present]
    creq = [c for c in case["cids"] if c in uni]
    zsel = (not case["zall"]) and (len(zreq) < len(present) or zreq != sorted(zreq))
    csel = (not case["call"]) and (len(creq) < len(uni) or creq != sorted(creq))
    return zsel or csel


def handle(ctx, fails, cases, verdicts, kind):
    for i, case in enumerate(cases):
        ctx.evaluations += 1
        job = case["job"]
        if "focus" in job:
            kind = "call %d of a sequence on shared objects (share=%s)" % (job["focus"] + 1, job["seq_job"]["share"])
        desc = ("%s %dD %dx%d agg=%s backend=%s zones=%s values=%s cats=%s nodata=%s zone_ids=%s cat_ids=%s"
                % (kind, case["dim"], job["H"], job["W"], case["agg"], job.get("backend"), case["z"], case["vs"],
                   case["cats"], case["nd"], "None" if case["zall"] else case["zids"],
                   "None" if case["call"] else case["cids"]))
        if "error" in case:
            if outside_domain(case):
                ctx.extra["outside_domain_empty_min_max"] = ctx.extra.get("outside_domain_empty_min_max", 0) + 1
                continue
            key = "crosstab:call-raised:%s" % case["error"].split(":")[0]
            if NINF in case["z"] and case["dim"] == 3 and "zero-size" in case["error"]:
                key = "crosstab:neginf-zone"       # slices shifted by -inf cells can lose all their valid values
            elif NINF in case["z"] and case["dim"] == 3 and "broadcast" in case["error"]:
                # since 7d7d291 _sort_and_stride assigns the shortened row into the full-width 3-D buffer
                key = "crosstab:neginf-zone-3d-raises"
            fails.add(key, "call_raised", case,
                      case["error"][:160] + " " + desc)
            continue
        cl = verdicts.get(i, "missing")
        dr = ctx.judge_extra.get(i)
        if nontrivial(case):
            ctx.nontrivial(hash((case["dim"], tuple(case["z"]), tuple(map(tuple, case["vs"])), case["nd"],
                                 case["zall"], tuple(case["zids"]), case["call"], tuple(case["cids"]), case["agg"])))
        if cl != "ok":
            fails.add(classify(case, cl, dr), cl, case, desc + " rows=%s cols=%s table=%s" % (case["rows"], case["cols"],
                                                                                         case["tab"]))
        if dr and dr.startswith("drift"):
            ctx.report_drift("transcription of _crosstab_numpy vs code: %s on %s" % (dr, desc))


def run_batch(ctx, fails, jobs, name, kind, size=80000):
    done = 0
    for part in U.chunks(jobs, size):
        cases = core.run_jobs("zonal_worker", part, nproc=U.nproc_for(part))
        U.check_worker(cases)
        cases = U.flatten(cases)
        idx = [i for i, c in enumerate(cases) if "error" not in c]
        good = [cases[i] for i in idx]
        v = ctx.judge("Crosstab_Judge", [U.strip(c) for c in good], name="%s_%d" % (name, done),
                      constants=dict(CODEVARIANT=R(CODEVARIANT)), parallel=ctx.pick(6, 8), env=U.JVM_JUDGE)
        vv = {idx[k]: cl for k, cl in v.items()}
        ctx.judge_extra = {idx[k]: ctx.judge_extra.get(k) for k in range(len(good))}
        handle(ctx, fails, cases, vv, kind)
        if done == 0:
            for c in good[:2]:
                ctx.sample({"kind": kind, "dim": c["dim"], "zones": c["z"], "values": c["vs"], "nodata": c["nd"],
                            "zone_ids": None if c["zall"] else c["zids"], "cat_ids": None if c["call"] else c["cids"],
                            "agg": c["agg"], "rows": c["rows"], "cols": c["cols"], "table": c["tab"]})
        done += len(part)


def scope_check(ctx, jobs, n, zalpha, valpha, layers, name):
    seen = {}
    for j in jobs:
        seen[(tuple(j["z"]), tuple(map(tuple, j["v"])))] = 1
    cases = [{"z": list(k[0]), "vs": [list(l) for l in k[1]]} for k in seen]
    v = ctx.judge("ZonalScope", cases, name=name, parallel=1, count_traces=False,
                  constants=dict(N=n, ZA=R(U.tla_set(zalpha)), VA=R(U.tla_set(valpha)), LAYERS=layers))
    if any(cl != "ok" for cl in v.values()):
        raise core.MachineryError("replayed enumeration %s is not the complete scope: %s" % (name, set(v.values())))


def replay(ctx, rec):
    """re-run exactly the recorded case through the real code and the judge"""
    job = rec["case"] if "fn" in rec["case"] else rec["case"]["job"]
    job = job.get("seq_job", job)          # a step of a call sequence: re-run the whole sequence
    cases = core.run_jobs("zonal_worker", [job], nproc=1)
    U.check_worker(cases)
    cases = U.flatten(cases)
    fails = U.Failures(ctx)
    good = [c for c in cases if "error" not in c]
    v = ctx.judge("Crosstab_Judge", [U.strip(c) for c in good], name="replay",
                  constants=dict(CODEVARIANT=R(CODEVARIANT)))
    handle(ctx, fails, cases, v if good else {}, "replay")
    ctx.sample({"replayed": rec.get("clause"), "key": rec.get("key"),
                "verdict": v.get(0) if good else cases[0].get("error")})
    print("REPLAY verdict: %s" % ([v.get(k) for k in range(len(good))] if good else cases[0].get("error")), flush=True)
    fails.report()


def run(ctx):
    ctx.rule = ("case = (zones, values, nodata, zone_ids, cat_ids, agg); non-trivial when the raster has >= 2 zones, "
                "at least one invalid (NaN / inf / nodata) value and zone_ids or cat_ids is a proper sub-list or not "
                "ascending; distinct by the full case")
    ctx.assumptions = [
        "float bridge: counts and integer aggregates within 1e-9 of an integer (exact_int); percentages, means, "
        "variances (std^2) within 1e-9 relative of the closest rational with denominator <= cells resp. cells^2 "
        "(rational(D)); TLC compares reduced fractions exactly",
        "row / column ORDER of a restricted table is free (any order accepted); each row must sit under its own zone "
        "label and each column under its own category",
        "zone_ids / cat_ids lists have no repeated entries (pandas refuses the frame otherwise); the dask sample "
        "requests at least one existing zone",
        "3-D min / max over an empty valid set raises in NumPy: outside the domain (DESIGN C04), counted in "
        "outside_domain_empty_min_max",
    ]
    if not os.environ.get("VERIF_DEV_SKIP_M"):      # development switch only
        model_checks(ctx)
    fails = U.Failures(ctx)
    thorough = ctx.tier == "thorough"
    # ---- R: complete enumerations through the real code
    jobs = enum_jobs_2d(ctx.seed, 3, ZC, VC, per_raster=5, tag="all_n3")
    scope_check(ctx, jobs, 3, ZC, VC, 1, "scope_n3")
    jobs3 = enum_jobs_3d(ctx.seed + 2, 2, [2, 4, NAN], [0, 2, NAN], [5, 3], "all_3d_n2", every_agg=True)
    scope_check(ctx, jobs3, 2, [2, 4, NAN], [0, 2, NAN], 2, "scope_3d_n2")
    jobs += jobs3
    # 3-D values whose layer dimension has length exactly ONE (every position of that dimension, every aggregate)
    jobs1 = enum_jobs_3d(ctx.seed + 5, ctx.pick(2, 3), [2, 4, NAN], [0, 2, NAN], [5], "all_3d_onelayer", every_agg=True)
    scope_check(ctx, jobs1, ctx.pick(2, 3), [2, 4, NAN], [0, 2, NAN], 1, "scope_3d_onelayer")
    jobs += jobs1
    jobs += multiset_jobs_2d(ctx.seed + 1, ctx.pick(4, 6), ZC, VC, "multiset")
    # ---- T: seeded larger rasters (same worker processes / judge JVMs as R: start-up dominates the quick tier)
    jobs += random_jobs(ctx.seed, ctx.pick(1500, 40000))
    jobs += matrix_jobs(ctx.seed, ctx.pick(60, 600))
    jobs += seq_jobs(ctx.seed, ctx.pick(300, 3000))
    jobs += close_id_jobs(ctx.seed, ctx.pick(400, 4000))
    run_batch(ctx, fails, jobs, "replay_and_random", "R/T")
    if thorough:
        run_batch(ctx, fails, enum_jobs_2d(ctx.seed + 3, 4, ZC, VC, per_raster=2, tag="all_n4"), "replay_n4", "R")
        run_batch(ctx, fails, enum_jobs_3d(ctx.seed + 4, 3, [2, 4, NAN], [0, 2, NAN], [5, 3], "all_3d_n3",
                                           every_agg=False), "replay_3d_n3", "R")
    # ---- a single-chunk dask sample
    run_batch(ctx, fails, random_jobs(ctx.seed, ctx.pick(40, 600), backend="dask", tag="dask"), "dask", "T-dask")
    fails.report()


META = {
    "technique": "TLA+ state machine of the zone loop and the running category offset of zonal.crosstab checked "
                 "exhaustively by TLC against the contingency-table definition; the same enumerations and seeded larger "
                 "rasters run through the real function, every observed table judged by TLC",
    "level_text": "Crosstab.tla models _crosstab_numpy (sort-and-stride slices per zone, _single_zone_crosstab_2d with "
                  "zone_cat_breaks and the running cat_start, _single_zone_crosstab_3d, the 'zone' column taken from the "
                  "request) step by step; TLC explores every raster of <= 3-4 cells over 4 zone codes x 4 category codes, "
                  "every multiset of 5-6 cells, 3-D rasters with 2 layers, with zone_ids / cat_ids lists (every list "
                  "over 3 existing + 1 absent id on the smallest scope), count / percentage and the seven 3-D "
                  "aggregates, and checks CatStartIsOffset, RowLabelsOwnZone, IsContingency, RestrictionIsSubmatrix, "
                  "RowsSumTo100; negative twins are rejected. The same enumerations plus seeded rasters up to 8x8 and a "
                  "single-chunk dask sample are run through the real zonal.crosstab; Crosstab_Judge.tla decides every "
                  "observed DataFrame against the abstract table and compares it (and the recorded per-zone helper "
                  "calls) with the transcription. Exhaustive on the small scope, sampled beyond it.",
    "level_note": "Trusted: TLC; the float bridge (exact_int, rational(D), 1e-9); the encoding of ids / categories as "
                  "scaled integers; the worker's decoding of the DataFrame; selections, nodata, dtypes and shapes "
                  "rotate over the enumeration instead of forming the full product.",
}
