"""C08 - slope, aspect, curvature, hillshade are local 3x3 formulas with NaN borders.

M  Stencil.tla: the state is a small raster, the transition changes one cell; TLC visits EVERY raster over
   {0,1,NaN} (3x3; thorough also {0,1,2,NaN}), {0,NaN} and {0,1} (3x4, 4x3; thorough also 4x4 over {0,NaN}) and
   every single-cell change and proves NaN ring, NaN exactly
   from the cells read, locality, offset invariance, flat law, ranges, quarter-turn law (sign derived from
   the model), cell-size axis binding; negative twins must be rejected.  CellSize_MC.tla: the case analysis
   of get_dataarray_resolution.
R  every 3x3 window of the same space tiled six to a 6x9 raster (quick: all 3^9 over {0,1,NaN}; thorough: all
   4^9) and windows as 3x3 rasters of their own (quick: seeded sample; thorough: all 3^9), with the four cell
   sizes given through `res` (every accepted / ignored form) and through coordinates, through the real
   functions (NumPy backend, plus a Dask-backed sample under three chunkings with non-default sun positions);
   Stencil_Judge.tla decides every cell of every output against the definition.
T  seeded larger rasters (floats, NaNs, dtypes, random sun positions): NaN ring / NaN exactly / ranges;
   single-cell perturbation (bit-exact diff set inside the 3x3 neighbourhood); + constant on integer
   elevations (bit-identical); np.rot90 laws; summarize_terrain == the three separate calls.
"""
import itertools
import json
import random

from harness import core

LIGHTS = core.Raw("{<<0,0,1,1>>, <<3,4,0,5>>, <<2,3,6,7>>, <<-2,-1,2,3>>, <<-6,2,-3,7>>, <<4,-3,0,5>>, <<0,-4,3,5>>}")
KS = core.Raw("{1, 7, -5}")
INV = ["TypeOK", "NaNRing", "NaNExactly", "OffsetInv", "ScaleLaw", "FlatLaw", "FlatIffZeroSlope", "Ranges", "RotLaw"]
INV_LOC = ["TypeOK", "NaNRing", "NaNExactly"]      # the larger locality configurations: per-window lemmas are done on 3x3
PROPS = ["Locality", "ReadsOnly"]

# the four cell sizes of the design: (cx, cy) as [num, den]
CELLS = [([1, 1], [1, 1]), ([2, 1], [1, 1]), ([1, 1], [3, 1]), ([1, 2], [2, 1])]
RES_OK = ["tuple", "list", "ndarray_float", "tuple_npfloat"]
RES_IGNORED = ["none", "ndarray_int", "tuple_npint", "triple", "str"]
INT_DTYPES = ["int8", "int16", "int32", "int64", "uint8", "uint16", "uint32", "uint64", "float32", "float64"]
LAYOUTS = ["C", "F", "T", "S", "R"]               # C, Fortran, transposed view, strided view, reversed view
DIMS = [["y", "x"], ["lat", "lon"], ["row", "col"]]
# offsets that put small windows at the top of the dtype; wide dtypes: 2^23 - 3, so that the float32 sums of two
# elevations curvature forms stay below 2^24 and exact (at 2^24 - 3 an odd sum rounds: 0.5 becomes 1 - that is
# single-precision arithmetic on 8-digit elevations, not a defect)
TOP = {"int8": 125, "uint8": 253, "int16": 32765, "uint16": 65533, "int32": 8388605, "uint32": 8388605,
       "int64": 8388605, "uint64": 8388605, "float32": 8388605, "float64": 8388605}
AZS = [225, 0, 90, 315, 37, 180, 270, 360, 45.5, -45]
ALTS = [25, 45, 0, 90, 63, 30.5, 5]


def mc_consts(H, W, vals, cx, cy, mut="none"):
    return dict(H=H, W=W, VALS=core.Raw(vals), CX=cx, CY=cy, MUT=mut, KS=KS, LIGHTS=LIGHTS)


def ramp(x0, step2, n, desc):
    xs = [x0 + i * step2 for i in range(n)]
    return xs[::-1] if desc else xs


def make_meta(cell, way, variant, H, W):
    """metadata that makes the raster's cell size `cell`, given through `res` (way 0) or coordinates (way 1)"""
    cx, cy = cell
    sx = 2 * cx[0] // cx[1]           # spacings in units of 1/2
    sy = 2 * cy[0] // cy[1]
    if way == 0:
        kinds = list(RES_OK)
        if cx == cy:
            kinds += ["scalar_int" if cx[1] == 1 else "scalar_float", "scalar_float"]
        rk = kinds[variant % len(kinds)]
        # coordinates deliberately say something else (or are absent): `res` must win
        if (variant // len(kinds)) % 2 == 0:
            xs, ys = [], []
        else:
            xs, ys = ramp(-4, 5, W, False), ramp(3, 3, H, True)
        if (variant // 3) % 5 == 4:               # both components negative: the same cell size (squares / mean^2)
            return {"rk": rk, "rx": [-cx[0], cx[1]], "ry": [-cy[0], cy[1]], "xs": xs, "ys": ys, "cd": 2}
        return {"rk": rk, "rx": cx, "ry": cy, "xs": xs, "ys": ys, "cd": 2}
    rk = RES_IGNORED[variant % len(RES_IGNORED)]
    dx = (variant // 5) % 2 == 1
    dy = (variant // 10) % 2 == 0          # descending y is the usual layout
    # the ignored `res` deliberately carries other numbers (integral, so every kind can hold them)
    return {"rk": rk, "rx": [7, 1], "ry": [9, 1], "xs": ramp(-3 + variant % 4, sx, W, dx),
            "ys": ramp(10 - variant % 3, sy, H, dy), "cd": 2}


def window(idx, base):
    syms = [0, 1, "nan"] if base == 3 else [0, 1, 2, "nan"]
    d = []
    for _ in range(9):
        d.append(syms[idx % base])
        idx //= base
    return [d[0:3], d[3:6], d[6:9]]


def dtype_for(rows, i):
    if any(v == "nan" for row in rows for v in row):
        return ["float64", "float32"][i % 2]
    dts = INT_DTYPES
    if any(v < 0 for row in rows for v in row):
        dts = [d for d in INT_DTYPES if not d.startswith("uint")]
    return dts[i % len(dts)]


def f_job(rows, i, combo=None, az=225, alt=25):
    H, W = len(rows), len(rows[0])
    if combo is None:
        combo = i % 8
    cell = CELLS[combo % 4]
    way = combo // 4
    j = {"kind": "F", "H": H, "W": W, "vals": rows, "dtype": dtype_for(rows, i),
         "meta": make_meta(cell, way, i // 8, H, W), "az": az, "alt": alt,
         "layout": "C", "dims": DIMS[(i // 2) % 3]}
    # memory layouts: every (dtype, layout class) pair is one more Numba specialisation per worker process, so the
    # non-C layouts are exercised on five of the ten dtypes
    if j["dtype"] in ("float64", "float32", "int16", "uint8", "int64"):
        j["layout"] = LAYOUTS[(i // 3) % 5]
    if i % 5 == 2 and all(v == "nan" or v >= 0 for row in rows for v in row):
        j["off"] = TOP[j["dtype"]]               # values at the top of the dtype: differences must not wrap
    return j


def tile(wins, th, tw):
    rows = []
    for a in range(th):
        for r in range(3):
            row = []
            for b in range(tw):
                row += wins[a * tw + b][r]
            rows.append(row)
    return rows


def rand_raster(rng, H, W, mode):
    rows = []
    for r in range(H):
        row = []
        for c in range(W):
            if mode == "float":
                v = round(rng.uniform(-100, 100), rng.choice([0, 1, 3, 6]))
            elif mode == "smallint":
                v = rng.randint(-2, 3)
            elif mode == "int":
                v = rng.randint(-1000, 1000)
            else:
                v = rng.randint(-20, 20)
            row.append(v)
        rows.append(row)
    return rows


def sprinkle_nan(rng, rows, dens):
    for row in rows:
        for c in range(len(row)):
            if rng.random() < dens:
                row[c] = "nan"
    return rows


def rand_meta(rng, H, W, square=False):
    cell = rng.choice(CELLS[:1] + [([2, 1], [2, 1]), ([1, 2], [1, 2])]) if square else rng.choice(CELLS)
    return make_meta(cell, rng.randint(0, 1), rng.randint(0, 39), H, W)


def cellsize_jobs():
    jobs = []
    kinds = RES_OK + RES_IGNORED + ["scalar_int", "scalar_float"]
    for rk in kinds:
        for (cx, cy) in CELLS + [([3, 1], [3, 1]), ([5, 2], [5, 2])]:
            if rk in ("ndarray_int", "tuple_npint", "scalar_int") and (cx[1] != 1 or cy[1] != 1):
                continue
            for cv in range(4):
                H, W = [(3, 4), (4, 3), (2, 5), (5, 2)][cv]
                if cv == 0:
                    xs, ys = [], []
                elif cv == 1:
                    xs, ys = ramp(0, 3, W, False), ramp(0, 4, H, True)
                elif cv == 2:
                    xs, ys = ramp(-7, 1, W, True), ramp(5, 6, H, False)
                else:                       # unequal spacing: (max - min)/(n - 1)
                    xs = [0, 5][:W] if W == 2 else [0, 1, 5, 6, 12][:W]
                    ys = [9, 8, 2, 1, 0][:H]
                jobs.append({"kind": "C", "H": H, "W": W, "vals": [[0] * W for _ in range(H)],
                             "meta": {"rk": rk, "rx": cx, "ry": cy, "xs": xs, "ys": ys, "cd": 2},
                             "dims": DIMS[len(jobs) % 3], "layout": LAYOUTS[len(jobs) % 5]})
    # negative and mixed-sign `res` (rioxarray style (30, -30)): returned as given
    for rk in RES_OK + ["scalar_int", "scalar_float"]:
        for (cx, cy) in [([-2, 1], [-1, 1]), ([3, 1], [-3, 1]), ([-1, 2], [2, 1]), ([-5, 2], [-5, 2])]:
            if rk == "scalar_int" and cx[1] != 1:
                continue
            jobs.append({"kind": "C", "H": 3, "W": 4, "vals": [[0] * 4 for _ in range(3)],
                         "meta": {"rk": rk, "rx": cx, "ry": cy, "xs": ramp(0, 3, 4, True), "ys": ramp(2, 1, 3, False),
                                  "cd": 2}, "dims": DIMS[len(jobs) % 3]})
    return jobs


def capped(ctx, key, limit=8):
    """at most `limit` replay files per failing class; the rest are only counted"""
    n = ctx.extra.setdefault("violations_per_key", {})
    n[key] = n.get(key, 0) + 1
    return n[key] <= limit


def strip(case):
    return {k: v for k, v in case.items() if k not in ("job", "raw", "error")}


def distinct_finite(rows):
    return len({v for row in rows for v in row if v != "nan"})


def handle(ctx, cases, tag, parallel=8, prefix="stencil"):
    """judge one homogeneous batch and book the verdicts"""
    good = [c for c in cases if "error" not in c]
    for c in cases:
        if "error" in c:
            ctx.evaluations += 1
            ctx.violation("%s:%s:call-raised" % (prefix, c["kind"]), "call_raised", {"job": c["job"]}, c["error"])
    if not good:
        return
    v = ctx.judge("Stencil_Judge", [strip(c) for c in good], name=tag, parallel=parallel)
    for i, c in enumerate(good):
        ctx.evaluations += 1
        cl = v.get(i, "missing")
        j = c["job"]
        if distinct_finite(j["vals"]) >= 2:
            ctx.nontrivial((c["kind"], json.dumps(j, sort_keys=True)))
        pre = "dask" if j.get("chunks") else prefix            # Dask-backed cases carry the key prefix dask:
        if cl != "ok" and capped(ctx, "%s:%s" % (pre, cl)):
            ctx.violation("%s:%s" % (pre, cl), cl, {"job": j, "observed": c.get("raw"), "case": strip(c) if c["kind"] != "F" else None},
                          "%s %dx%d dtype=%s meta=%s" % (tag, j["H"], j["W"], j.get("dtype"), (j.get("meta") or {}).get("rk")))
        ex = ctx.judge_extra.get(i)
        if ex and ex.startswith("drift"):
            ctx.report_drift("%s: %s on %s" % (tag, ex, json.dumps(j)[:300]))
    ctx.judge_extra.clear()


def observe(ctx, groups, nproc=16):
    """run all jobs of the groups through ONE pool of worker processes (import + JIT once per process), then let
    TLC judge each homogeneous group"""
    jobs = [j for _, js, _ in groups for j in js]
    cases = core.run_jobs("stencil_worker", jobs, nproc=nproc)
    k = 0
    for tag, js, par in groups:
        part = cases[k:k + len(js)]
        k += len(js)
        handle(ctx, part, tag, parallel=par, prefix="dask" if tag.startswith("dask") else "stencil")
        if tag == "windows_3x3":
            for c in part[:40000:9973]:
                ctx.sample({"kind": "window", "vals": c["job"]["vals"], "meta": c["job"]["meta"],
                            "dtype": c["job"]["dtype"],
                            "observed_centre": {f: c["raw"][f][1][1] for f in c["raw"]} if "raw" in c else None})


def replay(ctx, rec):
    """re-run exactly the recorded job through the real functions and the judge"""
    setup(ctx)
    job = rec["case"]["job"]
    cases = core.run_jobs("stencil_worker", [job], nproc=1)
    print("replaying %s: observed %s" % (rec.get("key"), json.dumps(cases[0].get("raw"))[:600]))
    handle(ctx, cases, "replay", parallel=1, prefix="dask" if job.get("chunks") else "stencil")


def setup(ctx):
    ctx.rule = ("case = one raster (values, dtype, cell-size metadata, sun position) or one metamorphic pair; "
                "non-trivial when the raster holds >= 2 distinct finite values; distinct by the full job")
    ctx.assumptions = [
        "float bridge (via_formula): slope and aspect within 1e-3 degrees of the closed form applied to the exact "
        "argument (tan^2 as a rational, integer gradient vector), curvature within 1e-3 absolute / 5e-7 relative of "
        "the exact rational, hillshade within 1e-5 of the published gradient-shading formula in float64",
        "aspect and hillshade do not use the cell size (ArcGIS aspect / GeoExamples hillshade as implemented); the "
        "documented formula of curvature uses the mean of the two cell sizes",
        "aspect 360 is identified with 0; curvature -0.0 counts as 0",
        "NumPy backend, plus a Dask-backed sample (chunked, synchronous scheduler) judged against the same "
        "definition; CuPy not available; elevations finite or NaN, cell sizes positive",
        "+constant / rot90 laws are asserted bit-exactly resp. within 1e-3 degrees on integer-valued elevations "
        "whose partial sums are exact in float32",
    ]


def run(ctx):
    setup(ctx)
    rng = random.Random(ctx.seed * 7919 + 8)
    thorough = ctx.tier == "thorough"

    def mc(name, H, W, vals, cx, cy, inv=INV, props=PROPS, mut="none", expect="ok", workers=6):
        # few TLC workers: the state spaces are small and CPU-seconds, not wall time, are the budget
        ctx.model_check("Stencil", dict(spec="Spec", invariants=inv, properties=props,
                                        constants=mc_consts(H, W, vals, cx, cy, mut)), name, expect=expect,
                        workers=workers)

    # ------------------------------------------------------------------ M
    ctx.model_check("CellSize_MC", dict(constants=dict(MUT="none")), "cellsize_lemmas", workers=1)
    for mut in ("attr_yx", "coords_yx", "span_n", "ignore_attr"):
        ctx.model_check("CellSize_MC", dict(constants=dict(MUT=mut)), "neg_cellsize_" + mut, expect="violation",
                        workers=1)
    # every 3x3 window over {0,1,NaN}: all lemmas and both action properties
    mc("all_3x3_windows", 3, 3, "{0, 1, NAN}", [1, 1], [1, 1])
    if thorough:
        # every 3x3 window over {0,1,2,NaN}: all state lemmas (the action properties are value-blind: done above)
        mc("all_3x3_windows_4_values", 3, 3, "{0, 1, 2, NAN}", [1, 1], [1, 1], props=[], workers=8)
    # non-square / non-unit cells (the quarter-turn law is vacuous for cx # cy, the ramp lemma is not)
    mc("3x3_cell_half_by_2", 3, 3, "{0, 1, NAN}" if thorough else "{0, 1}", [1, 2], [2, 1])
    if thorough:
        mc("3x3_cell_2_by_2", 3, 3, "{0, 2}", [2, 1], [2, 1])
        mc("3x3_cell_2_by_1", 3, 3, "{0, 1}", [2, 1], [1, 1])
        mc("3x3_cell_1_by_3", 3, 3, "{0, 1}", [1, 1], [3, 1])
    # locality needs rasters with a cell outside the neighbourhood
    mc("locality_3x4_nan", 3, 4, "{0, NAN}", [1, 1], [1, 1], inv=INV_LOC)
    mc("locality_4x3_nan", 4, 3, "{0, NAN}", [1, 1], [3, 1], inv=INV_LOC)
    mc("locality_3x4_finite", 3, 4, "{0, 1}", [1, 1], [1, 1], inv=INV_LOC)
    if thorough:
        mc("locality_4x3_finite", 4, 3, "{0, 1}", [1, 1], [3, 1], inv=INV_LOC)
        mc("locality_4x4_nan", 4, 4, "{0, NAN}", [1, 1], [1, 1], inv=INV_LOC, workers=8)
    # negative twins: each broken kernel must violate the lemma that is there to catch it
    twins = [("ring", 3, 3, "{0, 1, NAN}", [1, 1], [1, 1], ["NaNRing"], []),
             ("rowleak", 3, 4, "{0, NAN}", [1, 1], [1, 1], [], ["Locality"]),
             ("rowleak", 3, 3, "{0, NAN}", [1, 1], [1, 1], ["NaNExactly"], []),
             ("weights", 3, 3, "{0, 1}", [1, 1], [1, 1], ["OffsetInv"], []),
             ("weights", 3, 3, "{0, 1}", [1, 1], [1, 1], ["FlatLaw"], []),
             ("mirror", 3, 3, "{0, 1}", [1, 1], [1, 1], ["RotLaw"], []),
             ("axis", 3, 3, "{0, 1}", [2, 1], [1, 1], ["TypeOK"], [])]      # rejected by the RampLaw assumption
    for n, (mut, H, W, vs, cx, cy, inv, props) in enumerate(twins):
        mc("neg_%s_%d" % (mut, n), H, W, vs, cx, cy, inv=inv, props=props, mut=mut, expect="violation", workers=2)
    ctx.exhaustive = True

    # ------------------------------------------------------------------ R: the cell-size case analysis, directly
    groups = [("cellsize_cases", cellsize_jobs(), 1)]        # (tag, jobs, judge JVMs); observed in one worker pool

    # ------------------------------------------------------------------ R: windows as rasters of their own
    # quick: a seeded sample (the complete window space goes through the tilings below);
    # thorough: every {0,1,NaN} window + a sample of the four-valued ones
    jobs = []
    if thorough:
        for i in range(3 ** 9):
            jobs.append(f_job(window(i, 3), i))
        for i in rng.sample(range(4 ** 9), 8000):
            jobs.append(f_job(window(i, 4), i))
    else:
        for i in rng.sample(range(3 ** 9), 1000):
            jobs.append(f_job(window(i, 3), i))
        for i in rng.sample(range(4 ** 9), 1000):
            jobs.append(f_job(window(i, 4), i))
    groups.append(("windows_3x3", jobs, ctx.pick(2, 4)))

    # ------------------------------------------------------------------ R: EVERY window of the model's space,
    # tiled six to a 6x9 raster (every window is the neighbourhood of some interior cell; the cells across tile
    # borders add windows outside the space).  quick: all 3^9 windows over {0,1,NaN}; thorough: all 4^9.
    jobs = []
    base_n = 4 if thorough else 3
    order = list(range(base_n ** 9))
    rng.shuffle(order)
    order += order[:(-len(order)) % 6]
    for t in range(len(order) // 6):
        rows = tile([window(i, base_n) for i in order[6 * t:6 * t + 6]], 2, 3)
        jobs.append(f_job(rows, t, az=AZS[t % 10], alt=ALTS[t % 7]))
    if not thorough:
        for t in range(220):
            rows = tile([window(rng.randrange(4 ** 9), 4) for _ in range(6)], 2, 3)
            jobs.append(f_job(rows, t, az=AZS[t % 10], alt=ALTS[t % 7]))
    # 3 x N and N x 3 rasters: the border ring and ONE interior line
    for t in range(ctx.pick(60, 400)):
        k = rng.choice([2, 3, 4])
        wins = [window(rng.randrange(4 ** 9), 4) for _ in range(k)]
        rows = tile(wins, 1, k) if t % 2 == 0 else tile(wins, k, 1)
        jobs.append(f_job(rows, t, az=AZS[(t + 3) % 10], alt=ALTS[(t + 1) % 7]))
    # non-square tilings the other way round, and small-integer rasters with negative values
    for t in range(ctx.pick(100, 600)):
        rows = tile([window(rng.randrange(4 ** 9), 4) for _ in range(6)], 3, 2)
        jobs.append(f_job(rows, t))
    for t in range(ctx.pick(150, 1500)):
        H, W = rng.choice([(4, 7), (5, 5), (7, 4), (3, 8)])
        rows = sprinkle_nan(rng, rand_raster(rng, H, W, "smallint"), rng.choice([0, 0.05, 0.15]))
        jobs.append(f_job(rows, t, az=rng.choice([225, 10, 100, 180, 271, 359]), alt=rng.choice([25, 5, 60, 89])))
    groups.append(("tiled_rasters", jobs, ctx.pick(4, 8)))

    # ------------------------------------------------------------------ R: SCALE family - the same small-integer rasters
    # times 2^-24, 2^-30, 2^20 (exact; float32 and float64 inputs, squares stay far above the float32 underflow),
    # cell size unchanged: tiny / huge absolute gradients.  Judged against the exact formulas on the INTEGER raster
    # (aspect unchanged; tan(slope), curvature, hillshade gradient scale by the power of two - ScaleLaw in the model).
    jobs = []
    for t in range(ctx.pick(90, 500)):
        if t % 3 == 0:
            rows = tile([window(rng.randrange(4 ** 9), 4) for _ in range(6)], 2, 3)
        elif t % 3 == 1:
            rows = window(rng.randrange(4 ** 9), 4)
        else:
            H, W = rng.choice([(4, 7), (5, 5), (7, 4), (3, 8)])
            rows = sprinkle_nan(rng, rand_raster(rng, H, W, "smallint"), rng.choice([0, 0.05, 0.15]))
        j = f_job(rows, t, az=AZS[(t + 5) % 10], alt=ALTS[(t + 2) % 7])
        j.pop("off", None)
        j["dtype"] = ["float32", "float64"][(t // 3) % 2]
        j["sh"] = [-24, -30, 20, -24][(t // 2) % 4]
        if t % 5 == 4:                                        # a Dask-backed share, strip and uneven chunkings
            H, W = len(rows), len(rows[0])
            j["chunks"] = [[[H], [1, W - 1]], [[1, H - 1], [W]], [[H], [W]]][(t // 5) % 3]
        jobs.append(j)
    groups.append(("scale_family", jobs, ctx.pick(2, 4)))

    # ------------------------------------------------------------------ R: a Dask-backed sample of the same rasters
    # (the property is about every backend): five chunkings each, always a NON-default sun position, cell sizes via
    # `res` and via coordinates; judged by the same clauses against the definition (not against NumPy)
    jobs = []
    suns = [(315, 45), (90, 60), (10, 5), (180, 89), (271, 0), (0, 70), (45, 33)]
    def strips(n, t):
        """split n cells into 2-3 unequal strips (every strip at least 1 cell)"""
        if n < 2:
            return [n]
        if n == 2:
            return [1, 1]
        cuts = [[1, n - 1], [n - 1, 1], [n // 2, n - n // 2], [1, 1, n - 2] if n > 2 else [1, n - 1], [2, n - 2]]
        return cuts[t % len(cuts)]

    for t in range(ctx.pick(40, 180)):
        if t % 4 == 0:
            rows = tile([window(rng.randrange(4 ** 9), 4) for _ in range(6)], 2, 3)
        elif t % 4 == 1:
            rows = tile([window(rng.randrange(4 ** 9), 4) for _ in range(3)], 1, 3)          # 3 x 9
        elif t % 4 == 2:
            rows = tile([window(rng.randrange(4 ** 9), 4) for _ in range(3)], 3, 1)          # 9 x 3
        else:
            H, W = rng.choice([(4, 7), (5, 5), (7, 4), (3, 8)])
            rows = sprinkle_nan(rng, rand_raster(rng, H, W, "smallint"), rng.choice([0, 0.05, 0.15]))
        H, W = len(rows), len(rows[0])
        az, alt = suns[t % len(suns)]
        uneven = [[[2, H - 2], [1, 3, W - 4] if W > 4 else [1, W - 1]], [[H - 1, 1], [W - 2, 2] if W > 2 else [W]]][t % 2]
        # single block; 1-cell chunks (on the 6x9 tilings 1-cell rows x 3-cell columns - 54 blocks are costly); uneven
        # 2-D split; STRIPS: one chunk along y with several along x (full-height column strips) and one chunk along
        # x with several along y (full-width row strips) - a fast path keyed on one axis only shows up there
        one = [[1] * H, [1] * W] if H * W <= 35 else [[1] * H, [3] * (W // 3)]
        for ck in ([[H], [W]], one, uneven, [[H], strips(W, t)], [strips(H, t + 1), [W]]):
            j = f_job(rows, t, az=az, alt=alt)
            j["chunks"] = ck
            jobs.append(j)
    groups.append(("dask_rasters", jobs, ctx.pick(2, 4)))

    # ------------------------------------------------------------------ T: seeded metamorphic cases on the real code
    def base(kind, mode, nan=True, square=False, dtypes=("float64", "float32")):
        H, W = rng.choice([(4, 5), (5, 4), (6, 7), (8, 6), (9, 9), (3, 7)])
        rows = rand_raster(rng, H, W, mode)
        if nan:
            sprinkle_nan(rng, rows, rng.choice([0, 0, 0.05, 0.2]))
        return {"kind": kind, "H": H, "W": W, "vals": rows, "dtype": rng.choice(dtypes),
                "meta": rand_meta(rng, H, W, square), "az": rng.choice([rng.randint(0, 360), 0, 360, 45.5, -45]),
                "alt": rng.choice([rng.randint(0, 90), 0, 90, 30.5]),
                "layout": rng.choice(LAYOUTS), "dims": rng.choice(DIMS)}

    jobs = [base("G", rng.choice(["float", "int"])) for _ in range(ctx.pick(150, 1500))]
    for (H, W) in [(2, 4), (4, 2), (2, 2), (3, 3), (2, 7)] * ctx.pick(2, 10):      # rasters that are all border
        j = base("G", "float")
        j["H"], j["W"], j["vals"] = H, W, rand_raster(rng, H, W, "float")
        j["meta"] = rand_meta(rng, H, W)
        jobs.append(j)
    groups.append(("general_rasters", jobs, ctx.pick(1, 4)))

    jobs = []
    for _ in range(ctx.pick(220, 2500)):
        j = base("P", rng.choice(["float", "int", "rot"]))
        j["p"] = [rng.randrange(j["H"]), rng.randrange(j["W"])]
        old = j["vals"][j["p"][0]][j["p"][1]]
        j["v"] = rng.choice(["nan", round(rng.uniform(-500, 500), 2), 0, 10 ** 6]) if old != "nan" else rng.choice([0, 3.5, -80])
        jobs.append(j)
    groups.append(("perturbation", jobs, ctx.pick(1, 4)))

    jobs = []
    for _ in range(ctx.pick(200, 2000)):
        j = base("K", "int", dtypes=("float64", "float32", "int32", "int64"))
        if j["dtype"].startswith("int"):
            j["vals"] = [[0 if v == "nan" else v for v in row] for row in j["vals"]]
        j["k"] = rng.choice([1, 7, -13, 1000, 65536, -40000])
        jobs.append(j)
    groups.append(("plus_constant", jobs, ctx.pick(1, 4)))

    jobs = []
    for _ in range(ctx.pick(200, 2000)):
        j = base("R", "rot", square=True, dtypes=("float64", "float32", "int16", "int64"))
        if j["dtype"].startswith("int"):
            j["vals"] = [[0 if v == "nan" else v for v in row] for row in j["vals"]]
        j["meta"]["xs"], j["meta"]["ys"] = [], []        # coordinates do not turn with np.rot90; `res` or none
        if j["meta"]["rk"] not in RES_OK + ["scalar_int", "scalar_float"]:
            j["meta"]["rk"] = "none"
            j["meta"]["rx"] = j["meta"]["ry"] = [1, 1]
        jobs.append(j)
    groups.append(("rot90", jobs, ctx.pick(1, 4)))

    jobs = [base("S", rng.choice(["float", "int"])) for _ in range(ctx.pick(60, 500))]
    groups.append(("summarize_terrain", jobs, 1))
    observe(ctx, groups, nproc=ctx.pick(4, 10))

META = {
    "technique": "TLA+ transcription of the four 3x3 kernels with exact integer/rational arithmetic; TLC visits every "
                 "small raster and every single-cell change (lemmas as invariants / action properties, negative twins); "
                 "the same window space and seeded metamorphic pairs are run through the real functions and judged by TLC",
    "level_text": "TLC explores every 3x3 window over {0,1,NaN} (thorough: {0,1,2,NaN}) and every 3x4 / 4x3 raster over "
                  "{0,NaN} and {0,1} (thorough: also 4x4 over {0,NaN}) of Stencil.tla with single-cell-change transitions, proving NaN ring, NaN propagation from exactly the "
                  "cells read, locality, offset invariance, flat law, ranges and the quarter-turn law (direction derived "
                  "from the model), plus the cell-size case analysis (CellSize_MC.tla); broken twins are rejected. Every "
                  "window of that space is then run through the real slope/aspect/curvature/hillshade tiled into 6x9 "
                  "rasters (and, sampled in quick / all 3^9 in thorough, as a 3x3 raster of its own) under four cell sizes given by `res` and by coordinates, and "
                  "Stencil_Judge.tla decides every output cell against the exact arguments; seeded larger rasters are "
                  "checked for locality (bit-exact), offset invariance, rot90 laws and summarize_terrain. Exhaustive on "
                  "the window space, sampled beyond it.",
    "level_note": "Trusted: TLC; the float bridge in harness/workers/stencil_worker.py (inverse closed forms with 1e-3 "
                  "degree / 1e-5 tolerances; arctan, atan2, sin, cos themselves are not decided by the specification); "
                  "the encoding of rasters and metadata; NumPy backend exhaustively, Dask backend on a chunked sample.",
}
