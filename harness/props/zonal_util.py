"""Helpers shared by the C02 / C04 drivers (encodings of spec/ZonalOps.tla, enumerations, bookkeeping)."""
import itertools
import json

from harness import core

NINF, PINF, NAN, NONE = -1000000, 1000000, 2000000, 3000000
R = core.Raw


def tla_code(c):
    return {NINF: "NINF", PINF: "PINF", NAN: "NAN", NONE: "NONE"}.get(c, "(0-%d)" % -c if c < 0 else str(c))


def tla_set(codes):
    return "{" + ", ".join(tla_code(c) for c in codes) + "}"


def tla_seq(codes):
    return "<<" + ", ".join(tla_code(c) for c in codes) + ">>"


def lists_over(ids):
    """every list without repetition over ids: all subsets x all orders (incl. the empty list)."""
    out = []
    for k in range(len(ids) + 1):
        for sub in itertools.permutations(ids, k):
            out.append(list(sub))
    return out


def shapes(n):
    return [(h, n // h) for h in range(1, n + 1) if n % h == 0]


def finite(c):
    return NINF < c < PINF


def all_int_dtype_ok(codes, scale):
    return all(finite(c) and c % scale == 0 for c in codes)


def chunks(seq, size):
    for i in range(0, len(seq), size):
        yield seq[i:i + size]


def checked_mc(ctx, module, cfg, name, expect):
    """ctx.model_check, but a run expected to pass must really have completed without error: core only records
    res.ok.  A JVM killed by the kernel (out of memory on the shared machine) is retried once."""
    for attempt in (1, 2):
        res = ctx.model_check(module, dict(cfg), name if attempt == 1 else name + "_retry", expect=expect)
        if expect != "ok":
            return res
        complete = "Model checking completed" in res.out
        if res.ok and complete:
            return res
        if res.invariant_violated or res.property_violated or res.assume_failed or res.deadlock:
            raise core.MachineryError("model %s/%s: TLC refutes %s on a configuration that must hold\n%s"
                                      % (module, name, res.invariant_violated, res.out[-3000:]))
        # incomplete run (killed / crashed): forget its partial counts and retry once
        ctx.states -= res.distinct
        ctx.transitions -= res.generated
        ctx.mc_runs.pop()
    raise core.MachineryError("model %s/%s: TLC did not complete (rc=%s)\n%s" % (module, name, res.rc, res.out[-2000:]))


def nproc_for(jobs):
    """worker processes for a batch: a process costs ~10 CPU-s to start (imports + JIT), a numpy job ~1.5 ms,
    a dask job ~0.3 s."""
    cost = sum(100 if j.get("backend") == "dask" else 1 for j in jobs)
    return max(1, min(12, (cost + 3999) // 4000))


def strip(case):
    return {k: v for k, v in case.items() if k not in ("job", "tag", "error")}


class Failures:
    """Collects rejected cases per stable key; reports the smallest few of each key as violations."""

    def __init__(self, ctx, per_key=3):
        self.ctx = ctx
        self.per_key = per_key
        self.by_key = {}

    def add(self, key, clause, case, what):
        size = (case.get("dim", 0), case.get("n", 0), len(json.dumps(case.get("job", {}))))
        self.by_key.setdefault(key, []).append((size, clause, case, what))

    def report(self):
        for key in sorted(self.by_key):
            lst = sorted(self.by_key[key], key=lambda t: t[0])
            clauses = {}
            for _, cl, _, _ in lst:
                clauses[cl] = clauses.get(cl, 0) + 1
            self.ctx.extra.setdefault("rejected_by_key", {})[key] = {"cases": len(lst), "clauses": clauses}
            top = dict(sorted(clauses.items(), key=lambda kv: -kv[1])[:4])
            for size, cl, case, what in lst[:self.per_key]:
                self.ctx.violation(key, cl, case["job"], "%s [%d cases of this key rejected; most frequent clauses %s]"
                                   % (what, len(lst), top))
            if key in self.ctx.known:
                # known finding: count every hit (violation() counted per_key of them)
                self.ctx.known_hits[key] = len(lst)


def check_worker(cases):
    for c in cases:
        if "worker_error" in c:
            raise core.MachineryError("zonal_worker failed on %s: %s" % (json.dumps(c.get("job"))[:400],
                                                                         c["worker_error"]))
