"""Helpers shared by the C02 / C04 drivers (encodings of spec/ZonalOps.tla, enumerations, bookkeeping)."""
import itertools
import json

from harness import core

NINF, PINF, NAN, NONE = -1000000, 1000000, 2000000, 3000000
R = core.Raw


def tla_code(c):
    return {NINF: "NINF", PINF: "PINF", NAN: "NAN", NONE: "NONE"}.get(c, "(0-%d)" % -c if c < 0 else str(c))


def tla_set(codes):
    return "{" + ", ".join(tla_code(c) for c in codes) + "}"


def tla_seq(codes):
    return "<<" + ", ".join(tla_code(c) for c in codes) + ">>"


def lists_over(ids):
    """every list without repetition over ids: all subsets x all orders (incl. the empty list)."""
    out = []
    for k in range(len(ids) + 1):
        for sub in itertools.permutations(ids, k):
            out.append(list(sub))
    return out


def shapes(n):
    return [(h, n // h) for h in range(1, n + 1) if n % h == 0]


def finite(c):
    return NINF < c < PINF


def all_int_dtype_ok(codes, scale):
    return all(finite(c) and c % scale == 0 for c in codes)


# ---------------------------------------------------------------- input-variation matrix (same numbers, other buffers)
VDTYPES = ["int8", "uint8", "int16", "uint16", "int32", "int64", "uint64", "float32", "float64"]
ZDTYPES = ["int32", "int64", "uint8", "float32", "float64"]
LAYOUTS = ["C", "F", "T", "S", "R"]        # C, Fortran, transposed view, strided view, reversed view
BITS = {"int8": 8, "uint8": 8, "int16": 16, "uint16": 16, "int32": 32, "int64": 64, "uint64": 64}
DIMS = [["y", "x"], ["y", "x"], ["lat", "lon"], ["row", "col"], ["x", "y"]]
CATDIMS = ["cat", "band", "layer"]
ODD_NODATA = 777777                        # code of a nodata value that equals no cell


def fits(codes, scale, dtype):
    """can the raster (codes / scale) be stored in dtype without changing a number?"""
    if dtype.startswith("float"):
        return True
    if not all(finite(c) and c % scale == 0 for c in codes):
        return False
    vals = [c // scale for c in codes]
    if dtype.startswith("uint"):
        return min(vals) >= 0 and max(vals) < 2 ** BITS[dtype]
    return -2 ** (BITS[dtype] - 1) <= min(vals) and max(vals) < 2 ** (BITS[dtype] - 1)


def pick_dtype(rng, codes, scale, options):
    ok = [d for d in options if fits(codes, scale, d)]
    ints = [d for d in ok if not d.startswith("float")]
    if ints and rng.random() < 0.6:
        return rng.choice(ints)
    return rng.choice([d for d in ok if d.startswith("float")] + ["float64"])


def odd_nodata(rng, vdt, codes, scale):
    """a nodata number the integer dtype cannot represent, chosen so that a cast to the dtype would turn it into a
    value that IS in the raster (fractional -> truncates, negative for unsigned / beyond the range -> wraps).
    As a real number it equals no cell, so nothing may be dropped."""
    if vdt not in BITS:
        return None
    present = sorted({c // scale for c in codes if finite(c)})
    if not present:
        return None
    x = rng.choice(present)
    kinds = ["frac", "beyond"] + (["neg"] if vdt.startswith("uint") else [])
    k = rng.choice(kinds)
    if k == "frac":
        return x + 0.5 if x >= 0 else x - 0.5
    if k == "neg":
        return x - 2 ** BITS[vdt]
    return x + 2 ** BITS[vdt]


def vary(rng, job, value_codes, p_layout=0.6, p_odd=0.2):
    """draw the buffer layouts, dimension names and (for integer rasters) an unrepresentable nodata for a job."""
    job["zlay"] = rng.choice(LAYOUTS) if rng.random() < p_layout else "C"
    job["vlay"] = rng.choice(LAYOUTS) if rng.random() < p_layout else "C"
    job["dims"] = rng.choice(DIMS)
    if job.get("dim") == 3:
        job["catdim"] = rng.choice(CATDIMS)
    if job.get("backend", "numpy") in ("numpy", "dask") and rng.random() < p_odd:
        raw = odd_nodata(rng, job["vdt"], value_codes, job["vs"])
        if raw is not None:
            job["nd"] = ODD_NODATA
            job["nd_raw"] = raw
    return job


def chunks(seq, size):
    for i in range(0, len(seq), size):
        yield seq[i:i + size]


JVM_SMALL = {"JAVA_TOOL_OPTIONS": "-XX:ParallelGCThreads=2 -XX:TieredStopAtLevel=1"}   # short runs: no C2 compiler
JVM_BIG = {"JAVA_TOOL_OPTIONS": "-XX:ParallelGCThreads=2"}
JVM_JUDGE = {"JAVA_TOOL_OPTIONS": "-XX:ParallelGCThreads=2"}


def checked_mc(ctx, module, cfg, name, expect, small=False):
    """ctx.model_check, but a run expected to pass must really have completed without error: core only records
    res.ok.  A JVM killed by the kernel (out of memory on the shared machine) is retried once.
    The quick tier is budgeted in CPU-seconds: 16 TLC workers, 16 GC threads and the C2 compiler cost 30 CPU-s on a
    run of 30 000 states that needs 6; quick runs use 4 workers / 2 GC threads (short ones: C1 compiler only)."""
    kw = {}
    if ctx.tier != "thorough":
        kw = dict(workers=4, env=JVM_SMALL if (small or expect != "ok") else JVM_BIG)
    for attempt in (1, 2):
        res = ctx.model_check(module, dict(cfg), name if attempt == 1 else name + "_retry", expect=expect, **kw)
        if expect != "ok":
            return res
        complete = "Model checking completed" in res.out
        if res.ok and complete:
            return res
        if res.invariant_violated or res.property_violated or res.assume_failed or res.deadlock:
            raise core.MachineryError("model %s/%s: TLC refutes %s on a configuration that must hold\n%s"
                                      % (module, name, res.invariant_violated, res.out[-3000:]))
        # incomplete run (killed / crashed): forget its partial counts and retry once
        ctx.states -= res.distinct
        ctx.transitions -= res.generated
        ctx.mc_runs.pop()
    raise core.MachineryError("model %s/%s: TLC did not complete (rc=%s)\n%s" % (module, name, res.rc, res.out[-2000:]))


def nproc_for(jobs):
    """worker processes for a batch: a process costs ~10 CPU-s to start (imports + JIT), a numpy job ~1.5 ms,
    a dask job ~0.3 s."""
    cost = sum(100 if j.get("backend") == "dask" else (len(j["steps"]) if j.get("fn") == "seq" else 1) for j in jobs)
    return max(1, min(8, (cost + 4999) // 5000))


def strip(case):
    return {k: v for k, v in case.items() if k not in ("job", "tag", "error")}


class Failures:
    """Collects rejected cases per stable key; reports the smallest few of each key as violations."""

    def __init__(self, ctx, per_key=3):
        self.ctx = ctx
        self.per_key = per_key
        self.by_key = {}

    def add(self, key, clause, case, what):
        size = (case.get("dim", 0), case.get("n", 0), len(json.dumps(case.get("job", {}))))
        self.by_key.setdefault(key, []).append((size, clause, case, what))

    def report(self):
        for key in sorted(self.by_key):
            lst = sorted(self.by_key[key], key=lambda t: t[0])
            clauses = {}
            for _, cl, _, _ in lst:
                clauses[cl] = clauses.get(cl, 0) + 1
            self.ctx.extra.setdefault("rejected_by_key", {})[key] = {"cases": len(lst), "clauses": clauses}
            top = dict(sorted(clauses.items(), key=lambda kv: -kv[1])[:4])
            for size, cl, case, what in lst[:self.per_key]:
                self.ctx.violation(key, cl, case["job"], "%s [%d cases of this key rejected; most frequent clauses %s]"
                                   % (what, len(lst), top))
            if key in self.ctx.known:
                # known finding: count every hit (violation() counted per_key of them)
                self.ctx.known_hits[key] = len(lst)


def flatten(results):
    """results of run_jobs -> list of cases; a sequence job yields one case per step, each carrying the whole sequence
    (for replay) next to its own step job."""
    out = []
    for r in results:
        if "seq" in r:
            for k, c in enumerate(r["seq"]):
                c["job"] = dict(c["job"], seq_job=r["job"], focus=k)
                out.append(c)
        else:
            out.append(r)
    return out


def mutate_codes(rng, codes, W, pool, p_nan=0.35):
    """an in-place style edit of a flattened raster: a whole row to one id / value, some cells to NaN, some cells to
    another member of the pool."""
    codes = list(codes)
    n = len(codes)
    op = rng.choice(["row", "nan", "move", "move"])
    if op == "row":
        r = rng.randrange(n // W)
        x = rng.choice(pool)
        for c in range(W):
            codes[r * W + c] = x
    elif op == "nan" and rng.random() < p_nan + 0.5:
        for i in rng.sample(range(n), max(1, n // 5)):
            codes[i] = NAN
    else:
        for i in rng.sample(range(n), max(1, n // 4)):
            codes[i] = rng.choice(pool)
    return codes


def check_worker(cases):
    for c in cases:
        if "worker_error" in c:
            raise core.MachineryError("zonal_worker failed on %s: %s" % (json.dumps(c.get("job"))[:400],
                                                                         c["worker_error"]))
