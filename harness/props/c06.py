"""C06 - proximity / allocation / direction name one real target, never underestimated.

M  Proximity.tla: every target layout of small grids, P1..P7 as invariants (+ negative twins)
R  every layout of the same configurations through the real functions (interpreted mode, all
   _process_proximity_line calls logged) -> Proximity_Trace.tla: step-by-step against SweepLine,
   P1..P7 judged by TLC on the observed outputs
T  seeded larger rasters (three metrics, bounded max, explicit targets, descending / non-square
   coordinates) the same way; a compiled-mode sample.
"""
import itertools
import math
import random

from harness import core

INV_BASE = ["TypeOK", "PanIsTarget", "P1_ZeroIffTarget", "P2_NamesRealTarget", "P3_NeverUnder",
            "P4_WithinMax", "P5_NoNaNUnbounded", "P6_NaNBeyondMax", "P6b_AllocOnlyWithProx",
            "P7_ExactSingle"]


def mc_configs(tier):
    # name, H, W, XS, YS, METRIC, k (None = unbounded; E: max^2 = k+1/4; M: max = k+1/4), exact?
    q = [
        ("3x3_E", 3, 3, [0, 1, 2], [2, 1, 0], "E", None, True),
        ("3x4_E_max", 3, 4, [0, 1, 2, 3], [0, 1, 2], "E", 2, True),
        ("2x4_M_nonsq", 2, 4, [0, 2, 4, 6], [3, 0], "M", 4, True),
        ("4x3_E_nonsq", 4, 3, [0, 3, 6], [4, 3, 2, 1], "E", None, True),
        ("3x3_M_intmax", 3, 3, [0, 1, 2], [0, 1, 2], "M", ("int", 2), True),
        ("3x3_E_zeromax", 3, 3, [0, 1, 2], [2, 1, 0], "E", ("int", 0), True),
    ]
    t = q + [
        ("3x5_E", 3, 5, [0, 1, 2, 3, 4], [2, 1, 0], "E", None, True),
        ("5x3_M", 5, 3, [0, 1, 2], [0, 1, 2, 3, 4], "M", None, True),
        ("3x5_E_max", 3, 5, [0, 1, 2, 3, 4], [2, 1, 0], "E", 4, True),
        ("2x7_E", 2, 7, [0, 1, 2, 3, 4, 5, 6], [1, 0], "E", None, True),
        ("3x6_E", 3, 6, [0, 1, 2, 3, 4, 5], [2, 1, 0], "E", None, True),
        ("4x4_E", 4, 4, [0, 1, 2, 3], [3, 2, 1, 0], "E", None, False),
        ("4x4_E_max", 4, 4, [0, 1, 2, 3], [3, 2, 1, 0], "E", 5, False),
        ("4x4_M_nonsq", 4, 4, [0, 2, 4, 6], [0, 1, 2, 3], "M", 3, False),
    ]
    return t if tier == "thorough" else q


def bounds(metric, k):
    """(max_distance float, BOUND2, MAXN) for the off-lattice bound k (see DESIGN C06).
    k = ("int", m): Manhattan with the INTEGER max_distance m - every comparison of the code is then exact
    in floating point (integers below 2^24), so a distance exactly equal to max_distance is decided too."""
    if k is None:
        return None, -1, -1
    if isinstance(k, (tuple, list)):
        m = k[1]           # m = 0 (max_distance == 0.0, exact for both metrics): only target cells are within reach
        return float(m), 2 * m * m, m * m
    if metric == "E":
        return math.sqrt(k + 0.25), 2 * k + 1, k
    mx = k + 0.25
    return mx, int(math.ceil(2 * mx * mx)), int(math.floor(mx * mx))


def nontrivial(mask, H, W):
    t = [(r, c) for r in range(H) for c in range(W) if mask[r][c]]
    if len(t) < 2:
        return False
    for r in range(H):
        for c in range(W):
            if mask[r][c]:
                continue
            best = min(t, key=lambda p: (p[0] - r) ** 2 + (p[1] - c) ** 2)
            if best[0] != r and best[1] != c:
                return True
    return False


def layout_jobs(cfg, explicit=False, events=True, tag=""):
    name, H, W, XS, YS, metric, k, exact = cfg
    mx, b2, mn = bounds(metric, k)
    jobs = []
    for bits in itertools.product([0, 1], repeat=H * W):
        mask = [list(bits[r * W:(r + 1) * W]) for r in range(H)]
        if explicit:
            vals = [[r * W + c + 1 for c in range(W)] for r in range(H)]
            targets = [r * W + c + 1 for r in range(H) for c in range(W) if mask[r][c]]
            if not targets:
                continue
        else:
            vals = [[(r * W + c + 1) * mask[r][c] for c in range(W)] for r in range(H)]
            targets = []
        jobs.append({"H": H, "W": W, "vals": vals, "xs": XS, "ys": YS, "metric": metric, "max": mx,
                     "bound2": b2, "maxn": mn, "targets": targets, "events": events,
                     "exact": 1 if (exact or sum(bits) == 1) else 0, "tag": tag or name})
    return jobs


def random_jobs(rng, n, sizes, events=True):
    jobs = []
    for i in range(n):
        H, W = rng.choice(sizes)
        metric = rng.choice(["E", "E", "M", "T"])
        if metric == "T":
            if rng.random() < 0.4:
                # world-wide raster: on the sphere the opposite corners are NOT the farthest pair of cells
                xs = [-160 + (320 // max(1, W - 1)) * c for c in range(W)]
                ys = [80 - (160 // max(1, H - 1)) * r for r in range(H)]
            else:
                x0 = rng.randrange(-170, 150)
                xs = [x0 + 3 * c for c in range(W)]
                y0 = rng.randrange(-80, 60)
                ys = [y0 + 2 * r for r in range(H)]
            if rng.random() < 0.5:
                ys = ys[::-1]
        else:
            sx, sy = rng.choice([(1, 1), (1, 1), (2, 1), (1, 3), (3, 2)])
            x0, y0 = rng.randrange(-5, 5), rng.randrange(-5, 5)
            xs = [x0 + sx * c for c in range(W)]
            ys = [y0 + sy * r for r in range(H)]
            if rng.random() < 0.6:
                ys = ys[::-1]
            if rng.random() < 0.15:
                xs = xs[::-1]
        dens = rng.choice([0.08, 0.15, 0.3, 0.5])
        mask = [[1 if rng.random() < dens else 0 for _ in range(W)] for _ in range(H)]
        if rng.random() < 0.15:
            mask = [[0] * W for _ in range(H)]
            mask[rng.randrange(H)][rng.randrange(W)] = 1
        explicit = rng.random() < 0.3
        if explicit:
            vals = [[r * W + c + 1 for c in range(W)] for r in range(H)]
            # a nan / zero among the non-targets must not become a target
            targets = [r * W + c + 1 for r in range(H) for c in range(W) if mask[r][c]]
            if not targets:
                mask[0][0] = 1
                targets = [1]
        else:
            vals = [[(r * W + c + 1) * mask[r][c] for c in range(W)] for r in range(H)]
            for r in range(H):
                for c in range(W):
                    if not mask[r][c] and rng.random() < 0.1:
                        vals[r][c] = rng.choice(["nan", "inf", 0])
            targets = []
        if metric == "T":
            mx, b2, mn = (None, -1, -1)
            if rng.random() < 0.4:
                mx = rng.choice([150000.0, 333333.0, 600000.0, 1234567.0])
                b2 = mn = None  # worker derives the rank bounds from the table
        else:
            k = rng.choice([None, None, 1, 2, 4, 7, 12])
            if metric == "M" and rng.random() < 0.4:
                k = ("int", rng.choice([0, 1, 2, 3, 5]))
            elif metric == "E" and rng.random() < 0.1:
                k = ("int", 0)
            mx, b2, mn = bounds(metric, k)
        nt = sum(map(sum, mask))
        job = {"H": H, "W": W, "vals": vals, "xs": xs, "ys": ys, "metric": metric, "max": mx,
               "bound2": b2, "maxn": mn, "targets": targets, "events": events,
               "exact": 1 if nt == 1 else 0, "tag": "random"}
        u = rng.random()
        if u < 0.25:
            # repeated target values (realistic rasters): allocation is judged by value
            pal = rng.choice([[1, 2], [1, 2, 3], [5]])
            if explicit:
                others = [7, 8, 9, 0]
                job["vals"] = [[rng.choice(pal) if mask[r][c] else rng.choice(others) for c in range(W)] for r in range(H)]
                job["targets"] = sorted(set(v for r in range(H) for c in range(W) if mask[r][c] for v in [job["vals"][r][c]]))
            else:
                job["vals"] = [[rng.choice(pal) * mask[r][c] for c in range(W)] for r in range(H)]
            job["tag"] = "random_repeated_values"
        elif u < 0.40 and explicit:
            # negative / fractional / zero target values
            tv = rng.choice([[-1.5], [0], [-2, 0.5], [0, 3]])
            job["vals"] = [[rng.choice(tv) if mask[r][c] else rng.choice([7, 8, -9, 2.25]) for c in range(W)]
                           for r in range(H)]
            job["targets"] = tv
            job["tag"] = "random_odd_target_values"
        elif u < 0.55 and explicit:
            # target values single precision cannot tell apart from their neighbours (0.1 vs float32(0.1),
            # 2^24+1 vs 2^24, 1e-60 vs 0): target detection must compare in the raster's own precision
            tv, others = rng.choice([([0.1], [float.fromhex("0x1.99999a0000000p-4"), 0.3, 7]),
                                     ([16777217], [16777216, 16777218, 5]),
                                     ([1e-60, 0.3], [0, float.fromhex("0x1.3333340000000p-2"), 2]),
                                     ([16777216], [16777217, 16777215, 1])])
            job["vals"] = [[rng.choice(tv) if mask[r][c] else rng.choice(others) for c in range(W)] for r in range(H)]
            job["targets"] = tv
            job["tag"] = "random_precision_targets"
        if metric == "T" and rng.random() < 0.35:
            # very small cells (1e-5 .. 1e-6 degrees): a numerically weaker great-circle formula shows here
            job["scale"] = rng.choice([1e-5, 2e-6])
            job["xoff"] = float(rng.randrange(-170, 170))
            job["yoff"] = float(rng.randrange(-80, 80))
            job["xs"] = list(range(W))
            job["ys"] = list(range(H))[::-1]
            job["tag"] = job["tag"] + "_tinycells"
        if rng.random() < 0.25 and all(not isinstance(v, str) and float(v) == int(v) and abs(v) < 1e6 for row in job["vals"] for v in row):
            job["dtype"] = rng.choice(["int32", "int64", "uint8", "int16"]) if all(
                v >= 0 for row in job["vals"] for v in row) else rng.choice(["int32", "int64"])
        if rng.random() < 0.2:
            job["dims"] = rng.choice([["lat", "lon"], ["row", "col"], ["northing", "easting"]])
        if rng.random() < 0.3:
            job["layout"] = rng.choice(["F", "T", "S", "R"])
        jobs.append(job)
    return jobs


def extreme_jobs(rng, events):
    """default targets (every finite non-zero cell) on integer rasters holding their dtype's extreme values, and
    explicit target lists given in descending / shuffled order or with duplicates: what counts as a target must
    not depend on the dtype's width or on the order of target_values"""
    jobs = []
    ext = {"int8": [-128, 127], "int16": [-32768, 32767], "int32": [-2 ** 31, 2 ** 31 - 1], "int64": [-2 ** 63],
           "uint8": [255], "uint16": [65535]}
    for dt, es in ext.items():
        for e in es:
            for single in (True, False):
                H, W = rng.choice([(3, 4), (4, 4), (2, 5)])
                vals = [[0] * W for _ in range(H)]
                r, c = rng.randrange(H), rng.randrange(W)
                vals[r][c] = e
                if not single:
                    r2, c2 = rng.randrange(H), rng.randrange(W)
                    if (r2, c2) != (r, c):
                        vals[r2][c2] = 5
                nt = sum(1 for row in vals for v in row if v != 0)
                jobs.append({"H": H, "W": W, "vals": vals, "xs": list(range(W)), "ys": list(range(H))[::-1],
                             "metric": "E", "max": None, "bound2": -1, "maxn": -1, "targets": [], "events": events,
                             "exact": 1 if nt == 1 or min(H, W) <= 3 else 0, "dtype": dt, "tag": "extreme_" + dt})
    for order in ("desc", "shuffled", "dup"):
        for _ in range(3):
            H, W = rng.choice([(3, 4), (4, 4), (3, 5)])
            vals = [[rng.choice([1, 2, 3, 5, 8, 9]) for _ in range(W)] for _ in range(H)]
            present = sorted({v for row in vals for v in row})
            tv = rng.sample(present, min(len(present), rng.choice([2, 3])))
            tv = sorted(tv, reverse=True)
            if order == "shuffled":
                rng.shuffle(tv)
            if order == "dup":
                tv = tv + tv[:1] + [77]
            jobs.append({"H": H, "W": W, "vals": vals, "xs": list(range(W)), "ys": list(range(H))[::-1],
                         "metric": rng.choice(["E", "M"]), "max": None, "bound2": -1, "maxn": -1, "targets": tv,
                         "events": events, "exact": 1 if min(H, W) <= 3 else 0, "tag": "targets_" + order})
    return jobs


def world_jobs(rng, n):
    """great-circle rasters spanning most of the globe with few targets on the rim: on the sphere the farthest
    cell from a corner target is not the opposite corner, so any bound derived from the corners is too small"""
    jobs = []
    for _ in range(n):
        H, W = rng.choice([(4, 6), (5, 7), (6, 8), (7, 5), (8, 8)])
        xs = [-160 + (320 // (W - 1)) * c for c in range(W)]
        ys = [80 - (160 // (H - 1)) * r for r in range(H)]
        if rng.random() < 0.5:
            ys = ys[::-1]
        mask = [[0] * W for _ in range(H)]
        for _t in range(rng.choice([1, 1, 2])):
            r = rng.choice([0, H - 1, rng.randrange(H)])
            c = rng.choice([0, W - 1, rng.randrange(W)])
            mask[r][c] = 1
        vals = [[(r * W + c + 1) * mask[r][c] for c in range(W)] for r in range(H)]
        nt = sum(map(sum, mask))
        jobs.append({"H": H, "W": W, "vals": vals, "xs": xs, "ys": ys, "metric": "T", "max": None, "bound2": -1,
                     "maxn": -1, "targets": [], "events": True, "exact": 1 if nt == 1 else 0, "tag": "world"})
    return jobs


def handle(ctx, cases, verdicts, kind):
    for i, case in enumerate(cases):
        ctx.evaluations += 1
        if "error" in case:
            ctx.violation("proximity:call-raised", "call_raised", case["job"], case["error"])
            continue
        cl = verdicts.get(i, "missing")
        dr = ctx.judge_extra.get(i)
        if nontrivial(case["img"], case["H"], case["W"]):
            ctx.nontrivial((kind, case["H"], case["W"], case["metric"], case["maxn"],
                            tuple(map(tuple, case["img"])), tuple(case["xs"]), tuple(case["ys"])))
        if cl != "ok":
            ctx.violation("proximity:%s" % cl, cl, {k: case[k] for k in case if k not in ("events", "raw")},
                          "%s %dx%d metric=%s" % (case.get("tag"), case["H"], case["W"], case["metric"]))
        if dr and dr.startswith("drift"):
            ctx.report_drift("step model vs code: %s on %s %s" % (dr, case.get("tag"), case["img"]))


def judge_and_handle(ctx, cases, name, kind, **kw):
    good = [c for c in cases if "error" not in c]
    for c in cases:
        if "error" in c:
            ctx.evaluations += 1
            ctx.violation("proximity:call-raised", "call_raised", c["job"], c["error"])
    v = ctx.judge("Proximity_Trace", [strip(c) for c in good], name=name, stateful=True, **kw)
    handle(ctx, good, v, kind)
    return v


def strip(case):
    return {k: v for k, v in case.items() if k not in ("job", "raw", "tag", "lazy_ok", "error")}


def run(ctx):
    ctx.rule = ("cases = (grid, coordinates, metric, max_distance, target layout); non-trivial when the layout "
                "has >= 2 targets and some cell's nearest target lies in neither its row nor its column; "
                "distinct by the full case")
    ctx.assumptions = [
        "float bridge: proximity^2 must be within 1e-4 relative of a lattice distance (exact_int rule); "
        "direction compared with the bearing formula within 2e-3 degrees (via_formula rule)",
        "max_distance chosen off-lattice (max^2 = k + 1/4) so no float comparison is borderline",
        "bulk replay runs the same source in interpreted mode (NUMBA_DISABLE_JIT=1); a compiled-mode sample "
        "cross-checks it",
        "exactness (P7) is asserted on the configurations Proximity.tla proves exact in this run and on "
        "single-target layouts",
    ]
    rng = random.Random(ctx.seed * 7919 + 6)
    cfgs = mc_configs(ctx.tier)
    # ---- M
    for cfg in cfgs:
        name, H, W, XS, YS, metric, k, exact = cfg
        _, b2, mn = bounds(metric, k)
        inv = INV_BASE + (["P7_Exact"] if exact else [])
        ctx.model_check("Proximity", dict(spec="Spec", invariants=inv, constants=dict(
            H=H, W=W, XS=XS, YS=YS, METRIC=metric, BOUND2=b2, MAXN=mn, MUT="none")), name,
            coverage=(name == "3x3_E"))
    # negative twins: TLC must reject each broken sweep
    for mut, cfgname in (("nolast", "3x3"), ("le", "3x3")):
        ctx.model_check("Proximity", dict(spec="Spec", invariants=["P7_Exact"], constants=dict(
            H=3, W=3, XS=[0, 1, 2], YS=[2, 1, 0], METRIC="E", BOUND2=-1, MAXN=-1, MUT=mut)),
            "neg_" + mut, expect="violation")
    ctx.model_check("Proximity", dict(spec="Spec", invariants=["P4_WithinMax"], constants=dict(
        H=3, W=4, XS=[0, 1, 2, 3], YS=[2, 1, 0], METRIC="E", BOUND2=5, MAXN=2, MUT="nowithin")),
        "neg_nowithin", expect="violation")
    ctx.exhaustive = True

    # ---- R: every layout of the model-checked configurations through the real code
    # quick: every configuration of <= 12 cells; thorough: <= 15 cells plus the unit 4x4 grid (65 536 layouts),
    # one configuration at a time so memory and the judge batches stay bounded
    if ctx.tier == "quick":
        rcfgs = [c for c in cfgs if c[1] * c[2] <= 12]
    else:
        rcfgs = [c for c in cfgs if c[1] * c[2] <= 15 or c[0] == "4x4_E"]
    cases = []
    for gi, group in enumerate([rcfgs] if ctx.tier == "quick" else [[c] for c in rcfgs]):
        jobs = []
        for cfg in group:
            jobs += layout_jobs(cfg)
        if gi == 0:
            jobs += layout_jobs(cfgs[0], explicit=True, tag="explicit_targets")
        cases = core.run_jobs("prox_worker", jobs, env={"NUMBA_DISABLE_JIT": "1"})
        judge_and_handle(ctx, cases, "replay_layouts_%d" % gi, "R", workers=4, parallel=4 if ctx.tier == "quick" else 8,
                         timeout=3 * 3600)
    for c in cases[:2000:700]:
        ctx.sample({"kind": "replay", "img": c["img"], "metric": c["metric"], "maxn": c["maxn"],
                    "prox2": c.get("prox"), "alloc": c.get("alloc"), "events": len(c["events"])})

    # ---- T: seeded larger rasters with step traces
    n = ctx.pick(150, 3000)
    jobs = random_jobs(rng, n, [(4, 5), (5, 5), (6, 4), (5, 7), (7, 6), (8, 8)]) + world_jobs(rng, ctx.pick(24, 300))
    jobs += extreme_jobs(rng, True)
    cases = core.run_jobs("prox_worker", jobs, env={"NUMBA_DISABLE_JIT": "1"})
    judge_and_handle(ctx, cases, "random_traces", "T", workers=4, parallel=4)
    for c in cases[:3]:
        ctx.sample({"kind": "trace", "img": c["img"], "xs": c["xs"], "ys": c["ys"], "metric": c["metric"],
                    "maxn": c["maxn"], "prox2": c.get("prox"), "events": len(c["events"])})

    # ---- compiled-mode sample (what users run): outputs judged the same way, no step events
    n = ctx.pick(10, 120)
    jobs = random_jobs(rng, n, [(3, 4), (4, 4), (5, 6)], events=False) + extreme_jobs(rng, False)
    cases = core.run_jobs("prox_worker", jobs, nproc=16)
    judge_and_handle(ctx, cases, "compiled_sample", "compiled", workers=2)


def replay(ctx, rec):
    """re-run exactly the recorded case through the real code and the trace specification"""
    job = rec["case"]["job"]
    job["events"] = True
    cases = core.run_jobs("prox_worker", [job], env={"NUMBA_DISABLE_JIT": "1"})
    v = judge_and_handle(ctx, cases, "replay", "replay")
    ctx.sample({"replayed": rec.get("clause"), "verdict": v.get(0)})


META = {
    "technique": "TLA+ model of the four-sweep propagation checked exhaustively by TLC over all target layouts; "
                 "real-code step traces validated against the same SweepLine action; outputs judged by TLC",
    "level_text": "TLC explores every target layout of the listed small grids on Proximity.tla (P1-P7 as invariants, "
                  "negative twins rejected); every one of those layouts and seeded larger rasters are run through the "
                  "real proximity/allocation/direction with every line sweep logged, and Proximity_Trace.tla checks "
                  "each logged step against the model and P1-P7 on the observed outputs. Exhaustive on the small "
                  "scope, sampled beyond it.",
    "level_note": "Trusted: TLC; the float bridge (squared distances must be lattice values within 1e-4, bearings "
                  "within 2e-3 deg of the formula); interpreted mode (NUMBA_DISABLE_JIT=1) running the same source as "
                  "the compiled code (cross-checked by a compiled sample); max_distance restricted to off-lattice values.",
}
