"""C10 - analysis functions never modify their inputs and keep the raster's identity.

M  Aliasing.tla: sessions of calls over a heap of buffers (mechanism per class of wrapper), the three
   clauses as action properties; negative twins (astype no-op, shared attrs, dropped coords, eager
   result on dask, ...) and the mechanism perlin has today (PERLIN = "asis") must be rejected.
R  TLC enumerates the configuration space function x backend x dtype x layout from the API table
   (Aliasing_Configs); the harness performs each call on the real library, logging heap/object state
   before, after the call and after the write probe; Aliasing_Trace judges every record with the same
   clause operators; TLC also checks that the replayed set covers the supported space.
T  call *sequences*: `tlc -simulate` on Aliasing.tla yields sessions (results feed later calls,
   views of views, widening of a window ...) which are replayed in one process each and judged the same way.
"""
import json
import os
import random
import re
import time

from harness import core
from harness import alias_run

FM_MODEL = {"slope", "focal_mean", "hotspots", "trim", "crop", "perlin", "viewshed", "zonal_apply", "zonal_stats",
            "focal_stats"}
FM_SESSION_QUICK = {"slope", "aspect", "hillshade", "binary", "quantile", "convolution_2d", "focal_mean", "hotspots", "ndvi",
                    "allocation", "regions", "trim", "crop", "perlin", "zonal_apply", "zonal_stats", "true_color", "viewshed"}
FM_SESSION = {"slope", "aspect", "curvature", "hillshade", "binary", "quantile", "equal_interval", "convolution_2d",
              "focal_mean", "focal_apply", "hotspots", "ndvi", "savi", "arvi", "proximity", "allocation", "regions",
              "trim", "crop", "perlin", "generate_terrain", "zonal_apply", "zonal_stats", "zonal_crosstab",
              "focal_stats", "true_color"}
DT3 = {"int32", "float32", "float64"}
# DESIGN section 6: pipelines of a user session (each stage consumes the previous result)
PIPELINES = [["slope", "reclassify", "zonal_stats"], ["proximity", "binary", "crop"], ["focal_mean", "hotspots", "trim"],
             ["aspect", "quantile", "regions"], ["trim", "viewshed", "slope"], ["curvature", "equal_interval", "zonal_crosstab"],
             ["perlin", "slope", "hillshade"], ["generate_terrain", "focal_apply", "convolution_2d"],
             ["crop", "focal_stats", "trim"], ["allocation", "zonal_apply", "ndvi"]]

TWINS = [  # (MUT, property that must reject it)
    ("astype_noop_return", "NoAliasP"),
    ("astype_noop_inplace", "InputsUntouchedP"),
    ("attrs_shared", "InputsUntouchedP"),
    ("coords_dropped", "IdentityKeptP"),
    ("eager_on_dask", "IdentityKeptP"),
    ("view_drops_attrs", "IdentityKeptP"),
    ("widen_changes_values", "InputsUntouchedP"),
    ("apply_touches_zones", "InputsUntouchedP"),
    ("coords_shared", "NoAliasP"),              # agg.copy(deep=False, data=out): scalar / auxiliary coordinate buffers shared
    ("dask_kernel_inplace", "InputsUntouchedP"),   # kernel writes over a Dask raster's own blocks (astype to same dtype = self)
    ("dask_kernel_inplace", "RecomputeP"),
]

# relative cost of one call in a not yet seen (dtype, layout) configuration (first-call JIT), seconds
COST = {"viewshed": 0.3, "focal_stats": 10, "polygonize": 8, "generate_terrain": 6, "allocation": 6, "proximity": 6,
        "direction": 2.5, "perlin": 3, "a_star_search": 3, "polygonize_mask": 2.5, "focal_apply": 2.2, "zonal_stats": 1.5,
        "quantile": 1.3, "canvas_like": 1.8, "summarize_terrain": 1.0, "regions": 1.3}
VIEWSHED_FIRST = 22.0


def mc_constants(mut="none", perlin="fixed", dt=DT3, nobj=2, maxcalls=2, fm=FM_MODEL):
    return dict(DT=set(dt), BK={"numpy", "dask"}, NOBJ=nobj, MAXCALLS=maxcalls, FM=set(fm), MUT=mut, PERLIN=perlin)


def vkey(f, clause):
    if f == "perlin" and clause in ("input_values_changed", "output_shares_writable_memory",
                                    "write_to_output_changed_input"):
        return "perlin:writes-into-template"
    return "%s:%s" % (f, clause)


def strip_case(c):
    """what TLC needs of a session record"""
    def ev(e):
        return {"ev": e["ev"], "f": e["f"], "args": e["args"], "cfg": e["cfg"], "fam": e.get("fam", "std"), "argchg": bool(e.get("argchg", False)), "raised": e["raised"],
                "new": e.get("new", []), "objs": e["objs"], "res": e["res"], "store": e.get("store", [])}
    return {"init": c["init"], "events": [ev(e) for e in c["events"]]}


def enumerate_configs(ctx):
    out = os.path.join(ctx.scratch, "configs.ndjson")
    ctx.model_check("Aliasing_Configs", dict(), "emit_configs", workers=1, env={"VERIF_MODE": "emit", "VERIF_OUT": out})
    cfgs = [json.loads(ln) for ln in open(out) if ln.strip()]
    if len(cfgs) < 4000:
        raise core.MachineryError("TLC emitted only %d configurations" % len(cfgs))
    return cfgs


def pick_quick(cfgs, seed, meta):
    """quick tier.  Per backend EVERY function gets a C-contiguous, all-finite, unsorted float64 raster and an all-finite
    writable int32/C raster (in-place sorts / cumulative ops / normalisations only bite there); the functions whose inputs
    normally carry NaN/inf additionally get the NaN-bearing float64/C raster (same JIT specialisation).  NumPy also gets
    float32/C (NaN-bearing where the function takes NaN) for every function and one seeded non-C-contiguous
    (dtype, layout) for the functions that are cheap to JIT."""
    rest = [(d, l) for d in ["int8", "int16", "int64", "uint8", "uint16", "uint32", "uint64", "float64", "float32", "int32"]
            for l in ["F", "strided", "readonly"]]
    rnd = random.Random(seed * 101 + 10)
    extra = rnd.choice(rest)
    heavy = {f for f, c in COST.items() if c >= 2.5} | {"viewshed"}
    same_code = {"allocation", "direction", "polygonize_mask"}    # share proximity's / polygonize's code path; int via those
    sel = []
    for c in cfgs:
        key = (c["dtype"], c["layout"])
        if key == ("float64", "C"):
            slow = c["f"] in ("proximity", "allocation", "direction", "generate_terrain", "viewshed")   # >= 1 s per call
            # DEGENERATE VALUES (every cell NaN / one constant / all zero) and DEGENERATE SHAPES (1xN, Nx1, 2x2, 1x1) for every
            # function on the float64/C specialisation (no extra compilation); a function that refuses one is outside its
            # domain there (fam "degen": no drift)
            for dg, bks in (("allnan", ("numpy", "dask")), ("const", ("numpy",)), ("zero", ("dask",))):
                if c["backend"] in bks and not (slow and dg != "allnan"):
                    sel.append(dict(c, degen=dg, attrs_family=2))
            for hw_, bks in (([1, 7], ("numpy", "dask")), ([6, 1], ("numpy", "dask")), ([2, 2], ("dask",)), ([1, 1], ("numpy",))):
                if c["backend"] in bks and not (slow and hw_ != [1, 7]):
                    sel.append(dict(c, hw=hw_, finite=True, attrs_family=5))
            # value family "non-finite": NaN, +inf and -inf cells in EVERY raster input of EVERY function (same JIT
            # specialisations as the all-finite raster: no extra compilation); `res` is a string there (attrs family 4 / 1)
            sel.append(dict(c, nonfinite=True, single_chunk=(c["backend"] == "dask"),
                            attrs_family=4 if c["backend"] == "numpy" else 1))
            # on Dask this all-finite raster is a SINGLE chunk (chunks=-1): special cases for npartitions == 1; the other
            # Dask rasters of the tier (NaN-bearing float64 where taken, float32, int32) have 2 x 2 chunks
            # attrs family: `res` a scalar on NumPy, a pair of NumPy scalars on Dask
            sel.append(dict(c, finite=True, single_chunk=(c["backend"] == "dask"),
                            attrs_family=1 if c["backend"] == "numpy" else 5))
        elif key == ("int32", "C") and c["backend"] == "numpy" and c["f"] not in same_code:
            sel.append(dict(c, attrs_family=3))      # `res` a 3-tuple; int rasters on Dask: thorough tier
        elif key == ("float32", "C") and c["f"] not in heavy:
            # float32 on Dask too: dask's astype('f4') returns the array itself there; `res` a list
            sel.append(dict(c, attrs_family=2))
        elif c["backend"] == "numpy" and key == extra and c["f"] not in heavy:
            sel.append(dict(c))
    return sel, extra


def config_jobs(cfgs, variants=None):
    jobs = []
    for i, c in enumerate(cfgs):
        jobs.append({"sid": i, "tag": "config", "cfgrec": c,
                     "calls": [{"f": c["f"], "variant": (variants or {}).get(c["f"], 0) if not isinstance(variants, int) else variants,
                                "args": None, "dtype": c["dtype"], "layout": c["layout"], "backend": c["backend"],
                                "finite": bool(c.get("finite")), "single_chunk": bool(c.get("single_chunk")),
                                "nonfinite": bool(c.get("nonfinite")), "attrs_family": int(c.get("attrs_family", 0)),
                                "degen": c.get("degen"), "hw": c.get("hw")}]})
    return jobs


def job_cost(j):
    # every job that touches viewshed runs in one process (22 s first-call JIT paid once): spread that cost over them
    return sum(COST.get(c["f"], 0.6) + (1.0 if c["f"] == "viewshed" else 0.0) for c in j["calls"]) + 0.05


_MODS = {}


def job_affinity(j):
    """one warm worker per module: every single-call job (configuration / variant) of the functions of one module goes to
    the same process, so a (dtype, layout) specialisation of a shared helper is JIT-compiled once; sessions float, except
    that anything touching viewshed joins viewshed's process (22 s first-call JIT)."""
    if any(c["f"] == "viewshed" for c in j["calls"]):
        return "viewshed"
    if j.get("tag") in ("config", "variant"):
        if not _MODS:
            from harness import alias_api
            _MODS.update({k: v["mod"] for k, v in alias_api.catalog_meta().items()})
        return _MODS[j["calls"][0]["f"]]
    return None


def run_sessions(jobs, nproc=16):
    parts = alias_run.pack(jobs, job_cost, nproc=nproc, affinity=job_affinity)
    res = alias_run.run_partitions("alias_worker", parts)
    by = {}
    for part in res:
        for r in part:
            by[r["sid"]] = r
    out = []
    for j in jobs:
        r = by[j["sid"]]
        if "machinery_error" in r:
            raise core.MachineryError("alias_worker failed on %s:\n%s" % (j, r["machinery_error"]))
        out.append(r)
    return out


def handle(ctx, cases, verdicts, kind):
    raised = 0
    for i, case in enumerate(cases):
        ctx.evaluations += 1
        cl = verdicts.get(i, "missing")
        extra = ctx.judge_extra.get(i) or ""
        calls = [e for e in case["events"] if e["ev"] == "call"]
        for e in calls:
            if e["raised"]:
                raised += 1
            else:
                ctx.nontrivial((e["f"],) + tuple(e["cfg"]) if e["cfg"][0] else (e["f"], "session", tuple(e["args"])))
        if cl == "malformed_log":
            raise core.MachineryError("malformed session log: %s %s" % (extra, case["job"]))
        if cl != "ok":
            f = extra.split("@")[0]
            ctx.violation(vkey(f, cl), cl, {"job": case["job"], "where": extra,
                                            "events": [{k: v for k, v in e.items() if k != "tb"} for e in case["events"]]},
                          "%s %s %s" % (kind, extra, [c.get("cfg") for c in calls][:1]))
        elif extra.startswith("drift"):
            ctx.report_drift("%s: %s (%s)" % (kind, extra, [(e["f"], e["cfg"], e["err"][:80]) for e in calls if e["raised"]][:1]))
    return raised


def parse_hist(path):
    """last state of a simulated behaviour -> (init objects, calls)"""
    txt = open(path).read()
    i = txt.rfind("hist = ")
    if i < 0:
        return None
    j = txt.find("\n/\\", i)
    seg = txt[i:j if j > 0 else len(txt)]
    init, calls = [], []
    for m in re.finditer(r'<<"(init|call)"((?:,\s*"[^"]*")+)\s*>>', seg):
        items = re.findall(r'"([^"]*)"', m.group(2))
        if m.group(1) == "init":
            init.append({"id": items[0], "dtype": items[1], "layout": items[2], "backend": items[3]})
        else:
            calls.append({"f": items[0], "args": items[1:]})
    return init, calls


def session_jobs(ctx, n, maxcalls, rng, sid0, pipelines=False):
    if pipelines:
        fm = {f for p in PIPELINES for f in p}
        cst = mc_constants(dt={"int32", "uint8", "float32", "float64"}, maxcalls=3, fm=fm)
        cst["Pipelines"] = set()  # placeholder, replaced below (sequences are not hashable python sets)
        cst["Pipelines"] = core.Raw("{" + ", ".join("<<" + ", ".join('"%s"' % f for f in p) + ">>" for p in PIPELINES) + "}")
        files = ctx.simulate("Session", dict(spec="SSpec", constants=cst), "pipelines", num=n, depth=7)
    else:
        quick = ctx.tier != "thorough"
        files = ctx.simulate("Aliasing", dict(spec="Spec", constants=mc_constants(
            dt={"int32", "float32", "float64"} if quick else {"int8", "int32", "uint16", "float32", "float64"},
            maxcalls=maxcalls, fm=FM_SESSION_QUICK if quick else FM_SESSION)),
            "sessions", num=n, depth=2 * maxcalls + 1)
    meta = None
    jobs = []
    seen = set()
    for fpath in files:
        h = parse_hist(fpath)
        if not h or not h[1]:
            continue
        init, calls = h
        key = json.dumps([init, calls])
        if key in seen:
            continue
        seen.add(key)
        if meta is None:
            from harness import alias_api
            meta = alias_api.catalog_meta()
        kinds = ["elev", "border0", "surface", "targets"]
        for k, o in enumerate(init):
            o["kind"] = rng.choice(kinds) if rng.random() < 0.5 else "elev"
            o["seed"] = k * 3
            o["nan"] = rng.random() < 0.3
            if o["layout"] == "C":
                o["layout"] = rng.choice(["C", "C", "F", "strided"])
        for c in calls:
            c["variant"] = rng.randrange(meta[c["f"]]["nvariants"])
        jobs.append({"sid": sid0 + len(jobs), "tag": "session", "init": init, "calls": calls})
    return jobs


def run(ctx):
    ctx.rule = ("R: one case per (function, backend, dtype, layout) configuration the library accepts; T: sessions; "
                "non-trivial = distinct (function, configuration) resp. (function, session arguments) whose call returned")
    ctx.assumptions = [
        "content digests are sha1 of the values as float64 (dtype independent), coordinates and attributes by deep digest",
        "buffer identity = np.shares_memory classes; for dask objects the buffers are the chunk arrays embedded in the graph "
        "and the result is computed (synchronous scheduler) before the write probe",
        "configurations on which the library raises are outside the domain (errors are not mutations); they are compared with "
        "the spec's Supported table and reported as drift only",
        "summarize_terrain returns the terrain itself next to the derived variables by documented design: only the derived "
        "variables are subject to NoAlias",
        "identity clause only for DataArray-in/DataArray-out functions (DESIGN 3 rule 6); name is not part of identity",
    ]
    rng = random.Random(ctx.seed * 7919 + 10)

    # development aid (mutation testing): VERIF_FOCUS=f1,f2 restricts R/T to these functions and skips M
    focus = set(filter(None, os.environ.get("VERIF_FOCUS", "").split(",")))
    if focus:
        ctx.note("VERIF_FOCUS=%s: partial run, not a registered configuration" % sorted(focus))
        replay_part(ctx, rng, focus)
        return
    model_part(ctx)
    replay_part(ctx, rng, focus)


def model_part(ctx):
    # ---------------------------------------------------------------- M
    props = ["InputsUntouchedP", "NoAliasP", "IdentityKeptP", "RecomputeP"]
    ctx.model_check("Aliasing", dict(spec="Spec", invariants=["TypeOK"], properties=props, view="MCView",
                                     constants=mc_constants(maxcalls=ctx.pick(2, 3))), "sessions_2obj", coverage=True)
    if ctx.tier == "thorough":
        ctx.model_check("Aliasing", dict(spec="Spec", invariants=["TypeOK"], properties=props, view="MCView",
                                         constants=mc_constants(nobj=1, maxcalls=4)), "sessions_1obj_deeper")
    # negative twin: the mechanism perlin had before /repo c6e6981 (writes into the template): rejected by both clauses separately
    for p in ("InputsUntouchedP", "NoAliasP"):
        ctx.model_check("Aliasing", dict(spec="Spec", properties=[p], view="MCView",
                                         constants=mc_constants(perlin="asis", nobj=1)), "perlin_asis_" + p, expect="violation", workers=1)
    for mut, prop in TWINS:
        ctx.model_check("Aliasing", dict(spec="Spec", properties=[prop], view="MCView",
                                         constants=mc_constants(mut=mut)), "neg_%s_%s" % (mut, prop), expect="violation", workers=1)
    # why a fixture of one dtype cannot expose it: the astype twins are invisible when only int32 rasters exist
    for mut in ("astype_noop_return", "astype_noop_inplace"):
        r = ctx.model_check("Aliasing", dict(spec="Spec", properties=props, view="MCView",
                                             constants=mc_constants(mut=mut, dt={"int32"}, nobj=2, maxcalls=1)), "int32_only_" + mut, workers=2)
        if not r.ok:
            raise core.MachineryError("astype twin visible on int32-only scope: model no longer dtype dependent")
    # a trim that copies is allowed (the exception permits a view, it does not demand one)
    r = ctx.model_check("Aliasing", dict(spec="Spec", properties=props, view="MCView",
                                         constants=mc_constants(mut="view_copies", nobj=1)), "view_copies_allowed", workers=2)
    if not r.ok:
        raise core.MachineryError("a copying trim/crop must satisfy the property")
    pc = mc_constants(fm={f for p in PIPELINES for f in p}, maxcalls=3, nobj=2)
    pc["Pipelines"] = core.Raw("{" + ", ".join("<<" + ", ".join('"%s"' % f for f in p) + ">>" for p in PIPELINES) + "}")
    ctx.model_check("Session", dict(spec="SSpec", properties=["SInputsUntouchedP", "SNoAliasP", "SIdentityKeptP"], view="SView",
                                    constants=pc), "session_pipelines", workers=4)
    ctx.exhaustive = True
    ctx.extra["t_model_s"] = round(time.time() - ctx.t0)



def library_unchanged(ctx, fp0):
    fp1 = alias_run.repo_fingerprint()
    ctx.extra["library_fingerprint"] = fp1
    if fp0 != fp1:
        raise core.MachineryError("the library under %s changed while the check was running (%s -> %s): observations of "
                                  "one run are not comparable, run the check again" % (core.REPO, fp0, fp1))


def replay_part(ctx, rng, focus):
    fp0 = alias_run.repo_fingerprint()
    from harness import alias_api
    meta = alias_api.catalog_meta()
    # ---------------------------------------------------------------- R: configurations enumerated by TLC
    allcfgs = enumerate_configs(ctx)
    allcfgs = [c for c in allcfgs if c["f"] not in ("bump",) and (not focus or c["f"] in focus)]
    if ctx.tier == "thorough":
        # everything, plus all-finite float rasters on the C layout for every function
        sel = allcfgs + [dict(c, finite=True) for c in allcfgs if c["layout"] == "C" and c["dtype"] in ("float32", "float64")]
        # single-chunk Dask rasters (chunks=-1) for every function and dtype on the C layout
        sel += [dict(c, single_chunk=True) for c in allcfgs if c["layout"] == "C" and c["backend"] == "dask"]
        # the non-finite value family (NaN, +inf, -inf in every raster input) for every function on the float C rasters
        sel += [dict(c, nonfinite=True) for c in allcfgs if c["layout"] == "C" and c["dtype"] in ("float32", "float64")]
        # degenerate values and shapes for every function on the float C rasters of both backends
        fc = [c for c in allcfgs if c["layout"] == "C" and c["dtype"] in ("float32", "float64")]
        sel += [dict(c, degen=dg) for c in fc for dg in ("allnan", "const", "zero")]
        sel += [dict(c, hw=hw_, finite=True) for c in fc for hw_ in ([1, 7], [6, 1], [2, 2], [1, 1], [3, 1])]
        # attrs families (`res` as tuple / scalar / list / 3-tuple / string / NumPy scalars) rotate over the dtypes
        dts = ["float64", "float32", "int32", "int8", "int16", "int64", "uint8", "uint16", "uint32", "uint64"]
        sel = [dict(c, attrs_family=(dts.index(c["dtype"]) + (3 if c.get("finite") else 0) + (1 if c.get("nonfinite") else 0)) % 6)
               for c in sel]
        extra = None
    else:
        sel, extra = pick_quick(allcfgs, ctx.seed, meta)
        ctx.note("quick tier: every function on float64/C all-finite (single chunk on dask) and on float64/C with NaN, +inf, "
                 "-inf cells on both backends, and on int32/C on numpy; attrs['res'] as scalar / list / 3-tuple / string / "
                 "NumPy scalars across the sweeps; without the ten JIT-heavy functions: "
                 "float32/C and int32/C (multi-chunk) on dask, float32/C and seeded %s on numpy" % (extra,))
    jobs = config_jobs(sel)
    ncfg = len(jobs)
    # other parameter variants of every function (quick: float64/C; thorough: four configurations)
    vsel = (("float64", "C"),) if ctx.tier != "thorough" else (("float32", "C"), ("float64", "F"), ("int16", "strided"), ("float64", "C"))
    for c in allcfgs:
        key = (c["dtype"], c["layout"])
        quick = ctx.tier != "thorough"
        # the do-nothing / identity corner of a function (passes=0, 1x1 kernel, identity bins, constant raster, nothing to
        # trim, max_distance=0, start == goal, 3x3 raster ...) also on the strided float64 view: astype / asarray are no-ops there
        corner_only = quick and c["backend"] == "numpy" and key == ("float64", "strided")
        if (key in vsel or corner_only) and c["supported"]:
            if quick and c["backend"] != "numpy":
                continue
            for vi in range(1, meta[c["f"]]["nvariants"]):
                if c["backend"] not in meta[c["f"]]["variant_backends"].get(vi, alias_api.BACKENDS):
                    continue
                if corner_only and vi not in meta[c["f"]]["corners"]:
                    continue
                if quick and c["f"] in ("proximity", "allocation", "direction") and vi not in (1, 3) \
                        and vi not in meta[c["f"]]["corners"]:
                    continue            # every call of this family re-JITs a closure (0.8 s)
                jobs.append({"sid": len(jobs), "tag": "variant", "calls": [
                    {"f": c["f"], "variant": vi, "args": None, "dtype": c["dtype"], "layout": c["layout"],
                     "backend": c["backend"]}]})
    nvar = len(jobs) - ncfg
    # ---------------------------------------------------------------- T: call sequences generated by TLC
    sjobs = session_jobs(ctx, ctx.pick(8, 400), ctx.pick(4, 6), rng, len(jobs))
    sjobs += session_jobs(ctx, ctx.pick(6, 200), 3, rng, len(jobs) + len(sjobs), pipelines=True)
    if focus:
        sjobs = [j for j in sjobs if any(c["f"] in focus for c in j["calls"])][:12]
    jobs += sjobs
    # one fan-out for everything (packed by expected JIT cost)
    allcases = run_sessions(jobs)
    library_unchanged(ctx, fp0)
    ctx.extra["t_replayed_s"] = round(time.time() - ctx.t0)
    cases, vcases, scases = allcases[:ncfg], allcases[ncfg:ncfg + nvar], allcases[ncfg + nvar:]

    v = ctx.judge("Aliasing_Trace", [strip_case(c) for c in cases], name="configs", stateful=True, workers=2, parallel=8)
    nraised = handle(ctx, cases, v, "config")
    ctx.extra["configs_replayed"] = len(cases)
    ctx.extra["configs_raised_outside_domain"] = nraised
    for c in cases[:3]:
        e = c["events"][0]
        ctx.sample({"f": e["f"], "cfg": e["cfg"], "raised": e["raised"], "input_before": (e["new"] or [{}])[0].get("val"),
                    "input_after": (e["objs"] or [{}])[0].get("val"), "res_bufs": e["res"]["bufs"],
                    "input_bufs": (e["objs"] or [{}])[0].get("bufs")})
    # coverage of the configuration space, decided by TLC
    ran = [{"f": c["events"][0]["f"], "backend": c["events"][0]["cfg"][0], "dtype": c["events"][0]["cfg"][1],
            "layout": c["events"][0]["cfg"][2], "raised": c["events"][0]["raised"]} for c in cases]
    cv = ctx.judge("Aliasing_Configs", ran, name="cover", count_traces=False,
                   env={"VERIF_MODE": "cover", "VERIF_FULL": "1" if ctx.tier == "thorough" else "0"})
    ctx.extra["configuration_cover"] = ctx.judge_extra.get(0)
    if cv.get(0) != "ok" and not focus:
        raise core.MachineryError("configuration space not covered: %s %s" % (cv.get(0), ctx.judge_extra.get(0)))

    # selftest of the binding: corrupted copies of a clean recorded session must be rejected with the right clause
    if ctx.tier == "thorough" or ctx.selftest:
        clean = next(strip_case(c) for c in cases if c["events"][0]["f"] == "slope" and c["events"][0]["cfg"][0] == "numpy"
                     and not c["events"][0]["raised"])

        def mutated(fn):
            c = json.loads(json.dumps(clean))
            fn(c)
            return c

        def m1(c): c["events"][0]["objs"][0]["val"] = "0" * 12
        def m2(c): c["events"][0]["res"]["bufs"] = c["events"][0]["objs"][0]["bufs"]
        def m3(c): c["events"][0]["res"]["coords"] = [p for p in c["events"][0]["res"]["coords"] if p[0] != "band"]
        def m4(c): c["events"][1]["objs"][0]["val"] = "0" * 12
        def m5(c): del c["events"][1]
        def m6(c): c["events"][0]["objs"][0]["attrs"] = c["events"][0]["objs"][0]["attrs"][:-1]
        want = ["input_values_changed", "output_shares_writable_memory", "coords_changed", "write_to_output_changed_input",
                "malformed_log", "input_attrs_changed"]
        got = ctx.judge("Aliasing_Trace", [mutated(m) for m in (m1, m2, m3, m4, m5, m6)], name="selftest", stateful=True,
                        count_traces=False)
        if [got.get(i) for i in range(6)] != want:
            raise core.MachineryError("Aliasing_Trace accepted a corrupted session: %s" % got)

    vv = ctx.judge("Aliasing_Trace", [strip_case(c) for c in vcases], name="variants", stateful=True, workers=2, parallel=4)
    handle(ctx, vcases, vv, "variant")
    ctx.extra["variant_calls_replayed"] = len(vcases)

    sv = ctx.judge("Aliasing_Trace", [strip_case(c) for c in scases], name="sessions", stateful=True, workers=2, parallel=4)
    handle(ctx, scases, sv, "session")
    ctx.extra["sessions_replayed"] = len(scases)
    ctx.extra["session_calls"] = sum(1 for c in scases for e in c["events"] if e["ev"] == "call")
    for c in scases[:2]:
        ctx.sample({"session": [(e["f"], e["args"], "raised" if e["raised"] else e["res"]["id"]) for e in c["events"] if e["ev"] == "call"]})
    keys = {}
    for k, _cl, _p in ctx.violations:
        keys[k] = keys.get(k, 0) + 1
    ctx.extra["violation_keys"] = keys


def replay(ctx, rec):
    """re-run exactly the recorded session through the real library and the trace specification"""
    job = dict(rec["case"]["job"], sid=0, trace_errors=True)
    cases = run_sessions([job], nproc=1)
    v = ctx.judge("Aliasing_Trace", [strip_case(c) for c in cases], name="replay", stateful=True)
    handle(ctx, cases, v, "replay")
    ctx.sample({"replayed": rec.get("clause"), "key": rec.get("key"), "verdict": v.get(0), "where": ctx.judge_extra.get(0)})
    ctx.note("replayed: verdict %s %s" % (v.get(0), ctx.judge_extra.get(0)))


META = {
    "technique": "TLA+ heap/alias model of call sessions checked by TLC (action properties, negative twins); the whole "
                 "function x backend x dtype x layout space enumerated by TLC and replayed on the real library with "
                 "before/after digests, buffer identity and a write probe; every record and simulated call sequence judged "
                 "by TLC with the model's own clause operators",
    "level_text": "TLC model-checks Aliasing.tla (sessions of calls over a heap of buffers: InputsUntouched, NoAlias incl. "
                  "write probe, IdentityKept as action properties; 8 broken mechanisms and perlin's pre-repair mechanism "
                  "(write into the template) rejected as negative twins). TLC enumerates the configuration space from the spec's API/exception table; each "
                  "configuration (quick: 5 dtype/layout sweeps, ~260 configurations; thorough: all ~4600) and TLC-simulated call sequences are "
                  "run on the real library and Aliasing_Trace.tla judges the logged heap/object states step by step. "
                  "Exhaustive over the configuration space in the thorough tier; call sequences are sampled.",
    "level_note": "Trusted: TLC; sha1 digests of values/coordinates/attributes; np.shares_memory as buffer identity; the "
                  "harness's write probe and restore; synchronous dask scheduler for computing lazy inputs/results. "
                  "Raising configurations are outside the domain. One raster size (6x7) per configuration.",
}
