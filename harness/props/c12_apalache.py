"""C12 - unbounded values for the binary search: Apalache discharges an inductive invariant of the search
(spec/apalache/ClassifyInd.tla) for bin lists of length N over ALL integers; TLC cross-checks that the Apalache-typed
step equals ClassifyOps!BSStep (the step the step-trace validation binds to the compiled _cpu_bin) on every state of a
small scope.  A failed obligation is a failure of the MODEL (machinery), never a verdict on the code.
"""
import os
import re
import shutil
import subprocess
from concurrent.futures import ThreadPoolExecutor

from harness import core

SRC = os.path.join(core.VERIF, "spec", "apalache")
OBLIGATIONS = [("init_implies_inv", "Init", "IndInv", 0),
               ("inductive_step", "IndInit", "IndInv", 1), ("inv_implies_safety", "IndInit", "Safety", 0),
               ("no_wraparound", "IndInit", "NoWrap", 0), ("variant_decreases", "IndInit", "Variant", 1)]
# negative twins: the edit of StepA and the obligation that must then FAIL
TWINS = [("start_mid", ("start |-> m + 1, end |-> e, mid |-> (e + m + 1)", "start |-> m, end |-> e, mid |-> (e + m)"),
          ("IndInit", "Variant", 1)),
         ("break_ge", ("ELSE IF v > 2 * BinAtA(b, m - 1) THEN", "ELSE IF v >= 2 * BinAtA(b, m - 1) THEN"),
          ("IndInit", "IndInv", 1)),
         ("first_strict", ("ELSE IF v <= 2 * b[0] THEN", "ELSE IF v < 2 * b[0] THEN"), ("IndInit", "IndInv", 1))]


def _apalache(wd, module, init, inv, length, timeout=900):
    out = os.path.join(wd, "out_%s_%s_%d" % (init, inv, length))
    p = subprocess.run(["apalache-mc", "check", "--init=" + init, "--inv=" + inv, "--length=%d" % length,
                        "--out-dir=" + out, module + ".tla"], cwd=wd, stdout=subprocess.PIPE,
                       stderr=subprocess.STDOUT, text=True, timeout=timeout)
    shutil.rmtree(out, ignore_errors=True)
    m = re.search(r"The outcome is: (\w+)", p.stdout)
    return (m.group(1) if m else "NoOutcome"), p.stdout[-1500:]


def run_apalache(ctx, lengths):
    if shutil.which("apalache-mc") is None:
        raise core.MachineryError("apalache-mc not on PATH")
    src = open(os.path.join(SRC, "ClassifyInd.tla")).read()
    base = os.path.join(ctx.scratch, "apalache")
    os.makedirs(base, exist_ok=True)
    tasks = []
    for n in lengths:
        wd = os.path.join(base, "n%d" % n)
        os.makedirs(wd)
        with open(os.path.join(wd, "ClassifyInd.tla"), "w") as f:
            f.write(src.replace("N == 8 ", "N == %d " % n, 1))
        for name, init, inv, length in OBLIGATIONS:
            tasks.append((n, name, wd, "ClassifyInd", init, inv, length, "NoError"))
    for name, (old, new), (init, inv, length) in TWINS:
        if old not in src:
            raise core.MachineryError("twin %s: pattern not found in ClassifyInd.tla" % name)
        wd = os.path.join(base, "twin_" + name)
        os.makedirs(wd)
        with open(os.path.join(wd, "ClassifyInd.tla"), "w") as f:
            f.write(src.replace(old, new, 1))
        tasks.append((8, "twin_" + name, wd, "ClassifyInd", init, inv, length, "Error"))
    wd = os.path.join(base, "n%d" % max(lengths))
    tasks.append((max(lengths), "twin_vacuity_guard", wd, "ClassifyInd", "IndInit", "NotInLoop", 0, "Error"))
    with ThreadPoolExecutor(max_workers=8) as ex:
        res = list(ex.map(lambda t: _apalache(t[2], t[3], t[4], t[5], t[6]), tasks))
    recs = []
    for t, (outcome, tail) in zip(tasks, res):
        recs.append({"N": t[0], "obligation": t[1], "init": t[4], "inv": t[5], "length": t[6], "outcome": outcome})
        if outcome != t[7]:
            raise core.MachineryError("Apalache obligation %s (N=%d): expected %s, got %s\n%s"
                                      % (t[1], t[0], t[7], outcome, tail))
        if t[7] == "Error":
            ctx.negatives.append({"module": "ClassifyInd (Apalache)", "config": t[1], "expect": "violation", "ok": True})
    ctx.extra["apalache_obligations"] = recs
    # TLC: the typed twin equals the step the traces are validated against
    wd = os.path.join(base, "cross")
    os.makedirs(wd)
    for fn in ("ClassifyOps.tla",):
        shutil.copy(os.path.join(core.SPEC, fn), wd)
    shutil.copy(os.path.join(SRC, "ClassifyInd_Cross.tla"), wd)
    with open(os.path.join(wd, "ClassifyInd.tla"), "w") as f:
        f.write(src.replace("N == 8 ", "N == 4 ", 1))
    with open(os.path.join(wd, "cross.cfg"), "w") as f:
        f.write("CONSTANT MAXV = 3\nINIT XInit\nNEXT XNext\n")
    p = subprocess.run(["java", "-XX:+UseParallelGC", "-cp", core.TLA_CP, "tlc2.TLC", "-metadir",
                        os.path.join(wd, "meta"), "-config", "cross.cfg", "ClassifyInd_Cross.tla"],
                       cwd=wd, stdout=subprocess.PIPE, stderr=subprocess.STDOUT, text=True, timeout=900)
    m = re.search(r'"cross-checked",\s*(\d+)', p.stdout)
    if m is None or "Error" in p.stdout:
        raise core.MachineryError("ClassifyInd_Cross: StepA and BSStep disagree or TLC failed\n" + p.stdout[-2000:])
    ctx.extra["apalache_cross_checked_states"] = int(m.group(1))
    ctx.note("Apalache: %d obligations discharged for N in %s (all integers), %d twins rejected; StepA = BSStep on %s "
             "states (TLC)" % (len(recs) - len(TWINS) - 1, list(lengths), len(TWINS) + 1, m.group(1)))
