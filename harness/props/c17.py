"""C17 - local operators are per-cell functions of the layers, NaN-absorbing.

M  Local.tla: (1) the per-cell definitions and the laws the property states about them, evaluated by TLC over
   the complete tuple space {0,1,2,NaN}^L, L = 2..LMAX, ref = 1..L (negative twins: wrong definitions are
   rejected); (2) the iteration mechanism (np.nditer in lock-step, reshape by column count) as a state machine,
   one step per nditer iteration, over every assignment of memory layouts to the layers: the output cell must be
   computed from its own cell.  With order 'C' (the code since fix ffb8ff0) this holds for EVERY layout
   assignment.  Negative twins: nditer's default order 'K' (the code before the fix) is REJECTED by TLC once
   Fortran-ordered / reversed layouts are admitted; IdentityIffNoScramble states the exact frontier of 'K'.
R  (also: datasets mixing integer and float layers in every data_vars order, and "near-tie" datasets - values
   such as 1e6 / 1e6+1 or 0 / 5e-9, carried to TLC by rank - through the order-based operators)
   rasters carrying the complete case space (every tuple x every ref, completeness asserted by TLC) for
   L = 2..4, in every memory layout, with data_vars orders / subsets, through all local operators; judged by
   Local_Judge.tla (definition per cell, NaN rule, frequency sum, combine numbering + key table).  np.nditer's
   real order is compared with the model for every layout assignment (drift).
T  seeded datasets of 2..6 layers, mixed dtypes, scales, layouts.
"""
import itertools
import json
import random

from harness import core

NAN = -99
JVM_ENV = {"_JAVA_OPTIONS": "-Xmx2g -XX:ParallelGCThreads=2"}
# the iteration order of the modelled code: "C" = np.nditer(..., order='C') (since fix ffb8ff0).
CODE_ORDER = "C"
ALL_LAYOUTS = ["C", "F", "view", "Fview", "revrows", "revcols", "revboth", "Frevrows"]
C_LIKE = ("C", "view")
FUNCS = ["max", "mean", "median", "min", "std", "sum", "lesser_frequency", "equal_frequency",
         "greater_frequency", "lowest_position", "highest_position", "rank"]


def strides(name, H, W):
    return {"C": (W, 1), "F": (1, H), "T": (1, H), "view": (2 * (3 * W + 2), 3), "Fview": (2, 3 * (2 * H + 1)),
            "revrows": (-W, 1), "revcols": (W, -1), "revboth": (-W, -1), "Frevrows": (-1, H)}[name]


def layout_set(H, W, names):
    return core.Raw("{" + ", ".join(core.tla(list(strides(n, H, W))) for n in names) + "}")


def mc(ctx, name, H, W, NL, names, order, inv, expect="ok", lmax=2, mut="none", live=True):
    return ctx.model_check("Local", dict(
        spec="Spec", invariants=inv, properties=["Terminates"] if live and expect == "ok" else [],
        constants=dict(H=H, W=W, NL=NL, LAYOUTS=layout_set(H, W, names), ORDER=order, LMAX=lmax,
                       VALS={0, 1, 2, NAN}, MUT=mut)), name, expect=expect, env=JVM_ENV, workers=4)


# ------------------------------------------------------------------------------------------------ jobs
def full_space_job(rng, L, H, W, layouts, tag, **kw):
    """A raster holding every (tuple over {0,1,2,NaN}^L, ref in 1..L) exactly once, in seeded order."""
    space = [(t, r) for t in itertools.product([0, 1, 2, NAN], repeat=L) for r in range(1, L + 1)]
    assert len(space) == H * W
    rng.shuffle(space)
    layers = [[[space[y * W + x][0][i] for x in range(W)] for y in range(H)] for i in range(L)]
    ref = [[space[y * W + x][1] for x in range(W)] for y in range(H)]
    j = {"H": H, "W": W, "L": L, "layers": layers, "ref": ref, "layouts": layouts, "full": 1, "pairs": 0,
         "dtypes": ["float64"] * L, "tag": tag}
    j.update(kw)
    return j


def finite_space_job(rng, L, H, W, layouts, tag, dtypes, **kw):
    """Every tuple over {0,1,2}^L (integer layers possible), refs cycling, padded with repeats."""
    space = [(t, r) for t in itertools.product([0, 1, 2], repeat=L) for r in range(1, L + 1)]
    cells = [space[i % len(space)] for i in range(H * W)]
    rng.shuffle(cells)
    layers = [[[cells[y * W + x][0][i] for x in range(W)] for y in range(H)] for i in range(L)]
    ref = [[cells[y * W + x][1] for x in range(W)] for y in range(H)]
    j = {"H": H, "W": W, "L": L, "layers": layers, "ref": ref, "layouts": layouts, "full": 0,
         "pairs": 1 if H * W <= 64 else 0, "dtypes": dtypes, "tag": tag}
    j.update(kw)
    return j


SHAPES = {2: (4, 8), 3: (12, 16), 4: (16, 64)}


def replay_jobs(rng, tier):
    jobs = []
    for L in (2, 3, 4):
        H, W = SHAPES[L]
        # every operand in the same layout
        for lo in ALL_LAYOUTS + ["T"]:
            jobs.append(full_space_job(rng, L, H, W, [lo] * L, "full_L%d_all_%s" % (L, lo)))
        # mixed layouts (nditer resolves conflicts towards C order)
        mixes = [["C", "F"], ["F", "C"], ["view", "Fview"], ["revrows", "C"], ["revrows", "revboth"],
                 ["F", "Frevrows"], ["revcols", "revboth"], ["F", "Fview"]]
        for m in mixes:
            jobs.append(full_space_job(rng, L, H, W, [m[i % 2] for i in range(L)], "full_L%d_mix_%s" % (L, "+".join(m))))
        # transposed raster shape as well (reshape uses only the column count)
        jobs.append(full_space_job(rng, L, W, H, ["C"] * L, "full_L%d_tall" % L))
        jobs.append(full_space_job(rng, L, W, H, ["F"] * L, "full_L%d_tall_F" % L))
        # data_vars handling: variables stored in another order / with unused extras / default data_vars
        names = ["v%d" % i for i in range(L)]
        for k in range(3 if tier == "quick" else 8):
            order = names + ["ref", "x0", "x1"]
            rng.shuffle(order)
            jobs.append(full_space_job(rng, L, H, W, ["C"] * L, "full_L%d_vars_shuffled" % L, extras=2,
                                       ds_order=order, ref_layout=rng.choice(["C", "F", "revrows"])))
        jobs.append(full_space_job(rng, L, H, W, ["C"] * L, "full_L%d_default_vars" % L, explicit_vars=False))
        # integer / mixed dtype layers (NaN-free)
        for dts in (["int64"] * L, ["int32", "float32", "int64", "float64"][:L]):
            for lo in ("C", "F", "view"):
                jobs.append(finite_space_job(rng, L, 6, 9, [lo] * L, "finite_L%d_%s_%s" % (L, dts[0], lo), dts))
    if tier == "thorough":
        # every assignment of two layouts to L layers (L = 2, 3) on the small full rasters
        for L in (2, 3):
            H, W = SHAPES[L]
            for combo in itertools.product(ALL_LAYOUTS, repeat=L):
                if len(set(combo)) > 1:
                    jobs.append(full_space_job(rng, L, H, W, list(combo), "full_L%d_combo_%s" % (L, "+".join(combo))))
    return jobs


def nditer_jobs(rng, tier):
    """Tiny datasets for every assignment of layouts to 2..3 layers on several shapes: binds the iteration
    model to np.nditer (drift) and the outputs to the definitions."""
    jobs = []
    shapes = [(2, 3), (3, 2), (3, 3), (1, 4), (4, 1)] + ([(2, 2), (4, 5)] if tier == "thorough" else [])
    for (H, W) in shapes:
        for L in (2, 3):
            for combo in itertools.product(ALL_LAYOUTS, repeat=L):
                if L == 3 and tier == "quick" and rng.random() > 0.25:
                    continue
                layers = [[[rng.choice([0, 1, 2, 2, NAN]) for _ in range(W)] for _ in range(H)] for _ in range(L)]
                ref = [[rng.randrange(1, L + 1) for _ in range(W)] for _ in range(H)]
                jobs.append({"H": H, "W": W, "L": L, "layers": layers, "ref": ref, "layouts": list(combo),
                             "full": 0, "pairs": 1, "dtypes": ["float64"] * L,
                             "tag": "layouts_%dx%d_%s" % (H, W, "+".join(combo))})
    return jobs


ORDER_FUNCS = ["max", "min", "lesser_frequency", "equal_frequency", "greater_frequency", "lowest_position",
               "highest_position"]
# near ties: values that are UNEQUAL but close (relative 1e-6 .. 1e-7, absolute 5e-9, or +-1 on a huge base).
# An exact comparison must keep them apart; np.isclose-style comparisons do not.  (integral, table)
NEAR_TIE_TABLES = [
    (False, [-5e-9, 0.0, 5e-9, 1e-8, 1.0]),
    (False, [0.0, 1.0 - 1e-7, 1.0, 1.0 + 1e-7, 1.0 + 2e-7, 2.0]),
    (True, [999999.0, 1000000.0, 1000001.0, 1000002.0, 1000100.0]),
    (False, [999999.9, 1000000.0, 1000000.1, 1000001.0]),
    (True, [16777215.0, 16777216.0, 16777217.0, 16777218.0]),
    (True, [999999999.0, 1000000000.0, 1000000001.0, 1000000002.0, 1000000064.0]),
    (False, [1e9 - 100.0, 1e9, 1e9 + 0.5, 1e9 + 100.0, 1e9 + 150.0]),
]


def near_tie_jobs(rng, n_per_table):
    """Layer and reference values drawn from a table of near ties; TLC gets the RANK of every value (the table
    is increasing, so codes are order-isomorphic to the values): frequencies, positions, max/min and combine only
    depend on order and equality.  The reference layer holds arbitrary table values, so rank / popularity (which
    index with it) and the arithmetic statistics are not run on these datasets."""
    jobs = []
    for ti, (integral, table) in enumerate(NEAR_TIE_TABLES):
        if any(a >= b for a, b in zip(table, table[1:])):
            raise core.MachineryError("near-tie table %d is not strictly increasing" % ti)
        for q in range(n_per_table):
            L = rng.choice([2, 3, 4])
            H, W = rng.choice([(4, 5), (3, 6), (5, 5)])
            dtypes = [rng.choice(["int64", "float64"]) if integral else "float64" for _ in range(L)]
            layers = []
            for i in range(L):
                pn = 0.08 if dtypes[i] == "float64" else 0
                layers.append([[NAN if rng.random() < pn else rng.randrange(len(table)) for _ in range(W)]
                               for _ in range(H)])
            ref = [[rng.randrange(len(table)) for _ in range(W)] for _ in range(H)]
            jobs.append({"H": H, "W": W, "L": L, "layers": layers, "ref": ref, "table": table, "dtypes": dtypes,
                         "ref_dtype": rng.choice(["int64", "float64"]) if integral else "float64",
                         "layouts": [rng.choice(C_LIKE + ("F",)) for _ in range(L)], "funcs": ORDER_FUNCS, "pop": False,
                         "full": 0, "pairs": 1, "tag": "near_tie_table%d" % ti})
    return jobs


INF = float("inf")


def inf_jobs(rng, reps):
    """+inf and -inf are ordinary (non-NaN) values: cells holding +inf in one layer and -inf in another, only
    +inf, only -inf, next to numbers and genuine NaN.  Values are carried by rank through the table
    [-inf, 1, 2, 3, +inf] (codes 1..3 ARE the values 1..3, so the reference layer 1..L works for rank); judged on the
    order-based operators + rank (the arithmetic statistics of infinities are IEEE business, not the property's)."""
    table = [-INF, 1.0, 2.0, 3.0, INF]
    jobs = []
    for L in (2, 3):
        for _ in range(reps):
            H, W = rng.choice([(4, 5), (3, 6)])
            layers = [[[NAN if rng.random() < 0.06 else rng.choice([0, 4, 0, 4, 1, 2, 3]) for _ in range(W)]
                       for _ in range(H)] for _ in range(L)]
            layers[0][0][0], layers[1][0][0] = 4, 0          # +inf / -inf in different layers of one cell
            layers[0][0][1], layers[1][0][1] = 0, 4
            for i in range(2, L):
                layers[i][0][0], layers[i][0][1] = 2, 2
            ref = [[rng.randrange(1, L + 1) for _ in range(W)] for _ in range(H)]
            jobs.append({"H": H, "W": W, "L": L, "layers": layers, "ref": ref, "table": table,
                         "dtypes": ["float64"] * L, "ref_dtype": "int64", "layouts": [rng.choice(C_LIKE + ("F",)) for _ in range(L)],
                         "funcs": ORDER_FUNCS + ["rank"], "pop": False, "full": 0, "pairs": 1, "tag": "infinities_L%d" % L})
    return jobs


def signed_zero_jobs(rng, reps):
    """-0.0 and +0.0 in the same float layer: equal VALUES (combine must give them one id, frequencies count them as
    equal, positions take the first).  TLC sees the value 0 for both."""
    jobs = []
    for L in (2, 3):
        for _ in range(reps):
            H, W = rng.choice([(4, 5), (3, 6), (5, 5)])
            layers = [[[NAN if rng.random() < 0.05 else rng.choice([0, 0, 0, 1, -1, 2]) for _ in range(W)]
                       for _ in range(H)] for _ in range(L)]
            ref = [[rng.randrange(1, L + 1) for _ in range(W)] for _ in range(H)]
            jobs.append({"H": H, "W": W, "L": L, "layers": layers, "ref": ref, "dtypes": [rng.choice(["float64", "float32"]) for _ in range(L)],
                         "negzero": True, "layouts": [rng.choice(C_LIKE) for _ in range(L)], "full": 0, "pairs": 1,
                         "tag": "signed_zeros_L%d" % L})
    return jobs


def big_raster_jobs(rng, shapes):
    """Rasters with MORE than 8192 cells (numpy's default nditer buffer) and a non-constant reference layer, for the
    operators that pair the cell tuple with the reference layer (the three frequencies, rank, popularity)."""
    jobs = []
    for (H, W) in shapes:
        L = 2
        layers = [[[NAN if rng.random() < 0.01 else rng.randrange(0, 4) for _ in range(W)] for _ in range(H)]
                  for _ in range(L)]
        ref = [[1 + (y * 7 + x * 3 + (y * x) % 5) % L for x in range(W)] for y in range(H)]
        jobs.append({"H": H, "W": W, "L": L, "layers": layers, "ref": ref, "dtypes": ["float64", "int64"][:L] if False else ["float64"] * L,
                     "layouts": ["C"] * L, "funcs": ["lesser_frequency", "equal_frequency", "greater_frequency", "rank"],
                     "pop": True, "comb": False, "full": 0, "pairs": 0, "tag": "big_raster_%dx%d" % (H, W)})
    return jobs


def mixed_dtype_jobs(rng, reps):
    """Integer and float layers in one dataset, in EVERY order of data_vars (in particular an integer layer first
    and a float layer with fractional values and NaN later), scale 1/2: float layers carry halves, integer layers
    whole numbers.  All 14 operators."""
    jobs = []
    for L, kinds in ((2, ["int64", "float64"]), (3, ["int32", "float64", "float32"]), (3, ["int64", "int32", "float64"]),
                     (4, ["int64", "float64", "int32", "float32"]), (2, ["uint8", "float64"]),
                     (3, ["uint16", "int8", "float32"]), (3, ["uint64", "int64", "float64"]), (2, ["uint32", "int16"])):
        for perm in sorted(set(itertools.permutations(kinds))):
            for _ in range(reps):
                H, W = rng.choice([(4, 6), (5, 4)])
                layers = []
                for dt in perm:
                    if dt.startswith("float"):      # codes in halves: 0, 0.5, ..., 3, NaN (NaN only in float layers)
                        layers.append([[NAN if rng.random() < 0.1 else rng.randrange(0, 7) for _ in range(W)]
                                       for _ in range(H)])
                    else:                           # whole numbers only (even codes)
                        layers.append([[2 * rng.randrange(0, 4) for _ in range(W)] for _ in range(H)])
                ref = [[rng.randrange(1, L + 1) for _ in range(W)] for _ in range(H)]
                j = {"H": H, "W": W, "L": L, "layers": layers, "ref": ref, "dtypes": list(perm), "scale": 0.5,
                     "layouts": [rng.choice(C_LIKE) for _ in range(L)], "full": 0, "pairs": 1,
                     "tag": "mixed_dtypes_%s" % "+".join(perm)}
                if rng.random() < 0.5:
                    j["explicit_vars"] = False
                jobs.append(j)
    return jobs


SEQ_FUNCS = FUNCS + ["popularity", "combine"]


def seq_jobs(rng, reps):
    """Call sequences on ONE Dataset object: operator, in-place change of a layer (a cell to another value, a cell
    to NaN, a whole variable replaced, a variable added / removed), operator again (the same and another one), the
    same object with other data_vars / ref_var.  Every call is judged on the Dataset's content at that moment."""
    jobs = []
    for f in SEQ_FUNCS:
        for _ in range(reps):
            H, W = rng.choice([(2, 3), (3, 2), (3, 3)])
            g = lambda nanp=0.0: [[NAN if rng.random() < nanp else rng.randrange(0, 4) for _ in range(W)] for _ in range(H)]
            rg = lambda n: [[rng.randrange(1, n + 1) for _ in range(W)] for _ in range(H)]
            vars_ = {"v0": g(), "v1": g(0.1), "v2": g()}
            refs = {"ref": rg(2), "ref2": rg(2)}
            other = rng.choice([x for x in SEQ_FUNCS if x != f])
            A = ["v0", "v1"]
            cell = lambda: (rng.randrange(H), rng.randrange(W))
            steps = [{"op": "call", "func": f, "data_vars": A, "ref": "ref"}]
            for code in (None, NAN, None):
                y, x = cell()
                var = rng.choice(A)
                new = NAN if code == NAN else (vars_[var][y][x] + rng.choice([1, 2, 3])) % 4 if vars_[var][y][x] != NAN else 2
                steps.append({"op": "set_cell", "var": var, "y": y, "x": x, "code": new})
                steps.append({"op": "call", "func": f, "data_vars": A, "ref": "ref"})
            steps += [{"op": "call", "func": other, "data_vars": A, "ref": "ref"},
                      {"op": "call", "func": f, "data_vars": A, "ref": "ref"},
                      {"op": "replace", "var": "v0", "codes": g()},
                      {"op": "call", "func": f, "data_vars": A, "ref": "ref"},
                      {"op": "call", "func": f, "data_vars": ["v1", "v0"], "ref": "ref2"},      # same object, other arguments
                      {"op": "call", "func": f, "data_vars": ["v0", "v2"], "ref": "ref"},
                      {"op": "replace", "var": "v3", "codes": g()},                             # a variable is added
                      {"op": "call", "func": f, "data_vars": ["v0", "v1", "v3"], "ref": "ref"},
                      {"op": "call", "func": f, "data_vars": A, "ref": "ref"},
                      {"op": "drop", "var": "v2"},                                              # a variable is removed
                      {"op": "call", "func": f, "data_vars": A, "ref": "ref"}]
            y, x = cell()
            steps += [{"op": "set_cell", "var": "v1", "y": y, "x": x, "code": 3 if vars_["v1"][y][x] != 3 else 0},
                      {"op": "call", "func": f, "data_vars": A, "ref": "ref"},
                      {"op": "call", "func": other, "data_vars": A, "ref": "ref2"}]
            jobs.append({"seq": True, "H": H, "W": W, "vars": vars_, "refs": refs, "steps": steps, "tag": "sequence_" + f})
    return jobs


def random_jobs(rng, n):
    jobs = []
    for _ in range(n):
        L = rng.choice([2, 3, 3, 4, 5, 6])
        H, W = rng.choice([(3, 5), (5, 3), (4, 6), (7, 4), (6, 7), (2, 9), (1, 7), (8, 1)])
        scale = rng.choice([1, 1, 0.5, 0.25])      # dyadic: ref / scale stays an integer
        dtypes = [rng.choice(["float64", "float64", "float32", "int64", "int32"]) for _ in range(L)]
        hi = rng.choice([2, 3, 9])
        step = int(round(1 / scale))                # integer layers hold whole numbers: codes in multiples of 1/scale
        layers = []
        for i in range(L):
            isf = dtypes[i].startswith("float")
            pn = rng.choice([0, 0.05, 0.2]) if isf else 0
            layers.append([[NAN if rng.random() < pn else rng.randrange(-hi // 2, hi + 1) * (1 if isf else step)
                            for _ in range(W)] for _ in range(H)])
        ref = [[rng.randrange(1, L + 1) for _ in range(W)] for _ in range(H)]
        style = rng.random()
        if style < 0.6:
            layouts = [rng.choice(C_LIKE) for _ in range(L)]
        elif style < 0.8:
            layouts = [rng.choice(ALL_LAYOUTS)] * L
        else:
            layouts = [rng.choice(ALL_LAYOUTS) for _ in range(L)]
        j = {"H": H, "W": W, "L": L, "layers": layers, "ref": ref, "layouts": layouts, "dtypes": dtypes,
             "scale": scale, "full": 0, "pairs": 1, "ref_dtype": rng.choice(["int64", "int32", "int16"]),
             "ref_layout": rng.choice(["C", "C", "F", "revrows"]), "tag": "random_L%d" % L}
        if rng.random() < 0.5:
            j["extras"] = rng.choice([1, 2])
            order = ["v%d" % i for i in range(L)] + ["ref"] + ["x%d" % i for i in range(j["extras"])]
            rng.shuffle(order)
            j["ds_order"] = order
        elif rng.random() < 0.3:
            j["explicit_vars"] = False
        jobs.append(j)
    return jobs


def strip(case):
    return {k: v for k, v in case.items() if k not in ("job", "tag", "error")}


def key_of(case, clause, extra=""):
    if extra in ("outputs_are_those_of_nditer_default_order_K", "scramble_predicted_by_iteration_model"):
        # the outputs are cell for cell those of np.nditer's default order 'K': non-C-ordered layers are walked in
        # memory order while the flat result is reshaped as if it were C order (repaired by ffb8ff0: order='C')
        return "local:non-c-layout-scrambled"
    return "local:" + clause


class Tally:
    def __init__(self, ctx, per_key=3):
        self.ctx, self.per_key, self.by_key, self.drifts = ctx, per_key, {}, 0

    def viol(self, key, clause, case, what):
        n = self.by_key.get(key, 0)
        self.by_key[key] = n + 1
        if n < self.per_key:
            small = {"job": case["job"], "strides": case.get("strides"), "tag": case.get("tag"),
                     "out": case.get("out") if case["H"] * case["W"] <= 64 else "omitted (large)",
                     "comb": case.get("comb") if case["H"] * case["W"] <= 64 else "omitted (large)",
                     "key": case.get("key"), "error": case.get("error")}
            self.ctx.violation(key, clause, small, what)

    def finish(self):
        self.ctx.extra["violating_cases_by_key"] = dict(self.by_key)
        self.ctx.extra["drift_cases"] = self.drifts
        for k, n in sorted(self.by_key.items()):
            self.ctx.note("%d cases violate with key %s (first %d saved for replay)" % (n, k, min(n, self.per_key)))


def observe(ctx, jobs, name, tally, parallel=6):
    for j in jobs:
        j["order"] = CODE_ORDER
    # each worker process pays ~5 CPU-s for importing xrspatial: few processes in the quick tier
    res = core.run_jobs("local_worker", jobs, nproc=ctx.pick(4, 12))
    cases = []
    for r in res:                                      # a call sequence yields one case per call
        cases.extend(r["cases"] if "cases" in r else [r])
    good = [(i, c) for i, c in enumerate(cases) if "error" not in c]
    v = ctx.judge("Local_Judge", [strip(c) for _, c in good], name=name, parallel=parallel, env=JVM_ENV,
                  constants=dict(CODE_ORDER=CODE_ORDER))
    extra = dict(ctx.judge_extra)
    ctx.judge_extra.clear()
    for i, case in enumerate(cases):
        ctx.evaluations += 1
        if "error" in case:
            tally.viol("local:call-raised", "call_raised", case, "%s %s" % (case["tag"], case["error"]))
    for k, (i, case) in enumerate(good):
        cl = v.get(k, "missing")
        ex = extra.get(k) or ""
        if cl.startswith("MACHINERY"):
            raise core.MachineryError("%s on %s" % (cl, case["tag"]))
        L = case["L"]
        for y in range(case["H"]):
            for x in range(case["W"]):
                t = tuple(case["layers"][i2][y][x] for i2 in range(L))
                if len({a for a in t if a != NAN}) >= 2:
                    ctx.nontrivial((L, t))
        if cl != "ok":
            tally.viol(key_of(case, cl, ex), cl, case, "%s %dx%d L=%d layouts=%s strides=%s [%s]"
                       % (case["tag"], case["H"], case["W"], L, case["job"].get("layouts"), case["strides"], ex))
        if ex.startswith("drift"):
            tally.drifts += 1
            if tally.drifts <= 5:
                ctx.report_drift("iteration model vs code: %s on %s layouts=%s strides=%s"
                                 % (ex, case["tag"], case["job"].get("layouts"), case["strides"]))
    return cases


def setup(ctx):
    ctx.rule = ("cases = (dataset, data_vars, ref_var, layouts) run through all operators; a cell tuple is "
                "non-trivial when it has >= 2 distinct finite values; distinct by (layer count, tuple)")
    ctx.assumptions = [
        "layer values are small integer codes times a dyadic scale (NaN = -99), so every statistic is an exact "
        "rational; float bridge: max/min/sum/rank/frequencies/positions/ids exact_int, mean (den L), median (den 2), "
        "std via its square (den L^2), tolerance 1e-9 relative",
        "reference layers hold integers 1..L (the property's domain); popularity is only checked for the NaN rule "
        "and for giving equal cells equal values (the property does not define it)",
        "memory layouts are produced with numpy (asfortranarray, strided and reversed views); the strides the "
        "library sees are recorded and handed to the model",
    ]
    return Tally(ctx)


def replay(ctx, rec):
    """re-run exactly the recorded dataset through every local operator and the judge"""
    tally = setup(ctx)
    cases = observe(ctx, [rec["case"]["job"]], "replay", tally, parallel=1)
    ctx.sample({"replayed": rec.get("clause"), "tag": cases[0].get("tag"), "strides": cases[0].get("strides")})
    tally.finish()


def run(ctx):
    tally = setup(ctx)
    thorough = ctx.tier == "thorough"
    rng = random.Random(ctx.seed * 7919 + 17)

    # ------------------------------------------------------------------ M
    base = ["TypeOK", "NoRepeat", "AllVisited"]
    # (1) laws of the definitions over the complete tuple space (ASSUMEs), on a trivial iteration config
    mc(ctx, "laws_L2to%d" % (5 if thorough else 4), 2, 2, 2, ["C"], CODE_ORDER, base + ["PosIsIdentity"],
       lmax=5 if thorough else 4)
    mc(ctx, "neg_law_last_min", 2, 2, 2, ["C"], CODE_ORDER, ["TypeOK"], lmax=3, mut="last_min", expect="violation")
    mc(ctx, "neg_law_lesser_or_equal", 2, 2, 2, ["C"], CODE_ORDER, ["TypeOK"], lmax=3, mut="lesser_or_equal",
       expect="violation")
    # (2) iteration mechanism: the code's order on EVERY assignment of the 8 layouts - per-cell
    grids = [(2, 3, 3), (3, 2, 2), (3, 4, 2), (1, 4, 2)] + ([(4, 3, 3), (2, 5, 4), (5, 1, 2)] if thorough else [])
    for (H, W, NL) in grids:
        nm = "%dx%d_%dlayers" % (H, W, NL)
        mc(ctx, "iter%s_all_layouts_%s" % (CODE_ORDER, nm), H, W, NL, ALL_LAYOUTS, CODE_ORDER,
           base + ["PosIsIdentity", "IdentityIffNoScramble"])
    # negative twins: np.nditer's default order 'K' (the code before ffb8ff0) scrambles Fortran-ordered / reversed
    # layers: TLC must find it ...
    mc(ctx, "neg_iterK_all_layouts_2x3", 2, 3, 2, ALL_LAYOUTS, "K", ["PosIsIdentity"], expect="violation")
    mc(ctx, "neg_iterK_fortran_3x2", 3, 2, 3, ["C", "F"], "K", ["PosIsIdentity"], expect="violation")
    mc(ctx, "neg_iterK_reversed_rows_2x3", 2, 3, 2, ["C", "revrows"], "K", ["PosIsIdentity"], expect="violation")
    # ... and exactly there: 'K' is per-cell on C-like layouts, and its frontier is Scrambles (this keeps the
    # model of order 'K', which the judge uses to recognise the old defect, honest)
    kg = grids if thorough else grids[:2]
    for (H, W, NL) in kg:
        nm = "%dx%d_%dlayers" % (H, W, NL)
        mc(ctx, "twinK_frontier_" + nm, H, W, NL, ALL_LAYOUTS, "K", base + ["IdentityIffNoScramble"], live=False)
    mc(ctx, "twinK_clike_2x3_3layers", 2, 3, 3, list(C_LIKE), "K", base + ["PosIsIdentity"], live=False)
    ctx.exhaustive = True

    # ------------------------------------------------------------------ R
    jobs = replay_jobs(rng, ctx.tier)
    ctx.note("R: %d datasets carrying the complete case space / finite space, x 14 operators" % len(jobs))
    cases = observe(ctx, jobs, "replay_full_space", tally, parallel=ctx.pick(4, 8))
    for c in cases[:: max(1, len(cases) // 3)][:3]:
        ctx.sample({"kind": "replay", "tag": c["tag"], "shape": [c["H"], c["W"]], "L": c["L"], "strides": c["strides"]})
    jobs = nditer_jobs(rng, ctx.tier)
    ctx.note("R: %d small datasets over layout assignments (nditer order vs model)" % len(jobs))
    cases = observe(ctx, jobs, "replay_layout_assignments", tally, parallel=ctx.pick(3, 6))
    c = cases[len(cases) // 2]
    ctx.sample({"kind": "layouts", "tag": c["tag"], "layers": c["layers"], "ref": c["ref"], "strides": c["strides"],
                "iter": c["iter"], "max": c["out"].get("max")})

    jobs = mixed_dtype_jobs(rng, ctx.pick(1, 6)) + near_tie_jobs(rng, ctx.pick(6, 60)) + \
        inf_jobs(rng, ctx.pick(4, 40)) + signed_zero_jobs(rng, ctx.pick(4, 40)) + \
        big_raster_jobs(rng, ctx.pick([(100, 100)], [(100, 100), (91, 97), (50, 400), (300, 41)]))
    ctx.note("R: %d datasets: mixed int/float dtypes in every data_vars order; near-tie values carried by rank" % len(jobs))
    cases = observe(ctx, jobs, "replay_mixed_and_near_ties", tally, parallel=ctx.pick(2, 6))
    c = [c for c in cases if c["tag"].startswith("near_tie")][0]
    ctx.sample({"kind": "near_tie", "table": c["job"]["table"], "layers": c["layers"], "ref": c["ref"],
                "equal_frequency": c["out"].get("equal_frequency")})

    jobs = seq_jobs(rng, ctx.pick(2, 12))
    cases = observe(ctx, jobs, "call_sequences", tally, parallel=ctx.pick(1, 4))
    ctx.note("R: %d call sequences on one Dataset object changed in place between calls (%d calls judged)"
             % (len(jobs), len(cases)))
    ctx.sample({"kind": "sequence", "tag": cases[3]["tag"], "layers_at_call": cases[3]["layers"],
                "out": cases[3]["out"].get(cases[3]["funcs"][0]) if cases[3]["funcs"] else None})

    # ------------------------------------------------------------------ T
    jobs = random_jobs(rng, ctx.pick(250, 4000))
    cases = observe(ctx, jobs, "random_datasets", tally, parallel=ctx.pick(2, 8))
    c = cases[0]
    ctx.sample({"kind": "random", "tag": c["tag"], "layers": c["layers"], "ref": c["ref"], "strides": c["strides"],
                "rank": c["out"].get("rank")})
    tally.finish()


META = {
    "technique": "per-cell definitions and their laws evaluated by TLC over the complete tuple space; the shared "
                 "nditer/reshape mechanism as a TLA+ state machine over all layout assignments; rasters carrying the "
                 "complete case space run through every local operator in every memory layout and judged by TLC",
    "level_text": "TLC evaluates the definitions of cell_stats (6 statistics as exact rationals), the three frequencies, "
                  "lowest/highest_position, rank and their laws (NaN absorbing, frequencies sum to the layer count, first "
                  "extremum, sorted order, layer-order irrelevance) over every tuple of {0,1,2,NaN}^L, L=2..4(5), and model-"
                  "checks the iteration mechanism (one step per np.nditer iteration) over every assignment of 8 memory "
                  "layouts to 2-4 layers: per-cell under the code's order 'C'; np.nditer's default order 'K' (negative "
                  "twin, the code before fix ffb8ff0) is rejected for Fortran/reversed layouts, exact frontier proven.  Rasters holding every tuple x every ref "
                  "(completeness asserted by TLC) are run through all 14 operators in every layout / data_vars order and "
                  "each output cell is decided by Local_Judge.tla; np.nditer's real order is checked against the model.",
    "level_note": "Trusted: TLC; the float bridge (rationals with denominators L, 2, L^2, tolerance 1e-9); integer-code "
                  "encoding with dyadic scales; numpy-made memory layouts.  popularity has no definition in the property: "
                  "only the NaN rule and equal-cells-equal-values are checked for it.",
}
