"""C11 - results depend only on the arguments, not on earlier calls or thread timing.

M  History.tla: the library as a state machine over its hidden state (jit signatures, captured closure
   values, mutable defaults, module tables, global RNG); every history up to MAXLEN over a full product
   alphabet; ResultIsFresh / HiddenStateFrozen / JitOnlyGrows / RepeatIdempotent / DefaultIsExplicit;
   broken designs (stale closure, mutable default, popped table, RNG not re-seeded, race) rejected.
R  TLC generates histories over the concrete alphabet (built to collide): `tlc -simulate` (long histories)
   and, in the thorough tier, the exhaustive enumeration of all ordered pairs of a small alphabet.  A worker
   replays each history in ONE process, logging after every call the result digest and the hidden state.
   Fresh-interpreter reference digests: one subprocess per distinct call (cached in the run).
T  History_Trace.tla validates every logged history (IsEvent and Call(c) and logged fields, HistOps!StepClause).
   A subset is repeated with NUMBA_NUM_THREADS / dask workers in {4, 16}; the reference stays 1 thread.
"""
import json
import random
import re

from harness import core
from harness import alias_run
from harness import c11_pairs

F8N, F4N, I4N, F8D, F4D, I8N = "f8n", "f4n", "i4n", "f8d", "f4d", "i8n"
F4B, F4BD = "f4nBig", "f4dBig"      # 40 x 48 rasters: large enough for threads to actually interleave
SIG = {F8N: ("float64", "numpy"), F4N: ("float32", "numpy"), I4N: ("int32", "numpy"), I8N: ("int64", "numpy"),
       F8D: ("float64", "dask"), F4D: ("float32", "dask"), F4B: ("float32", "numpy"), F4BD: ("float32", "dask")}
BIG = [40, 48]

GENS = {"perlin", "generate_terrain"}
UNSEEDED = {"bump"}


def A(f, variant, sig, p=None, tier="quick", cost=1.0):
    """alphabet entry; p: abstract parameter name ("dflt" = parameter omitted, "p0" = default value passed
    explicitly, "v<k>" otherwise)"""
    if p is None:
        p = "dflt" if variant == 0 else "v%d" % variant
    dt, bk = SIG[sig]
    return {"c": "%s|%s|%s" % (f, p, sig), "f": f, "variant": variant, "dtype": dt, "backend": bk, "layout": "C",
            "p": p, "sig": sig, "tier": tier, "cost": cost, "hw": BIG if sig.endswith("Big") else None,
            "eff": "%s|%s|%s" % (f, "p0" if p == "dflt" else p, sig)}


# the quick tier's alphabet (44 calls); the thorough tier uses every entry below
QUICK = {
    "proximity|dflt|f8n", "proximity|v1|f8n", "proximity|v3|f8n", "proximity|v4|f8n", "proximity|v3|f8d",
    "proximity|dflt|f4nBig", "allocation|v1|f8n", "direction|v3|f8n",
    "focal_apply|dflt|f8n", "focal_apply|v2|f4nBig", "focal_apply|dflt|f4nBig", "focal_apply|dflt|f4dBig",
    "convolution_2d|dflt|f4n", "focal_mean|dflt|f8n", "focal_mean|v2|f8n", "focal_stats|v1|f4n",
    "zonal_stats|dflt|f8n", "zonal_stats|p0|f8n", "zonal_stats|v2|f8n", "zonal_stats|dflt|f8d", "zonal_crosstab|dflt|i4n",
    "zonal_apply|dflt|f8n", "trim|dflt|f8n", "regions|dflt|f8n",
    "quantile|dflt|f8n", "quantile|v1|f8n", "reclassify|dflt|f8n", "binary|v1|i4n", "natural_breaks|dflt|f8n",
    "slope|dflt|f4n", "slope|dflt|i4n", "slope|dflt|f4nBig", "slope|dflt|f4d",
    "polygonize|dflt|i4n", "polygonize|dflt|f8n", "a_star_search|dflt|f8n", "a_star_search|v1|f8n",
    "perlin|dflt|f4n", "perlin|p0|f4n", "perlin|v2|f4n", "generate_terrain|dflt|f8n", "bump|dflt|f8n",
    "local_cell_stats|dflt|i4n", "local_cell_stats|v1|i4n",
}

# functions that share module level state (compiled helpers, closures, defaults, tables, the global RNG)
FAMILY = {"proximity": "proximity", "allocation": "proximity", "direction": "proximity",
          "focal_mean": "focal", "focal_apply": "focal", "focal_stats": "focal", "hotspots": "focal", "convolution_2d": "focal",
          "zonal_stats": "zonal", "zonal_crosstab": "zonal", "zonal_apply": "zonal", "regions": "zonal", "trim": "zonal",
          "quantile": "classify", "natural_breaks": "classify", "reclassify": "classify", "binary": "classify",
          "equal_interval": "classify", "perlin": "rng", "generate_terrain": "rng", "bump": "rng"}


def reference_groups(calls):
    """quick tier: reference interpreters shared by calls of DIFFERENT families - a process holds at most one call of each
    family (RNG users first), so every reference is still the first call into its module in a fresh interpreter"""
    fams = {}
    for a in sorted(calls, key=lambda a: a["c"]):
        fams.setdefault(FAMILY.get(a["f"], a["f"]), []).append(a)
    n = max(len(v) for v in fams.values())
    groups = [[] for _ in range(n)]
    for fam in sorted(fams, key=lambda k: (k != "rng", k)):
        for i, a in enumerate(fams[fam]):
            groups[i].append(a)
    return [g for g in groups if g]


def alphabet(tier):
    al = [
        # jitted closure over target_values / max_distance / distance_metric / process_mode
        A("proximity", 0, F8N), A("proximity", 1, F8N), A("proximity", 2, F8N), A("proximity", 3, F8N),
        A("proximity", 4, F8N), A("proximity", 6, F8N), A("proximity", 0, I4N), A("proximity", 3, F8D),
        A("allocation", 0, F8N), A("allocation", 1, F8N), A("allocation", 4, F8N),
        A("direction", 0, F8N), A("direction", 3, F8N), A("direction", 5, F8N, tier="thorough"),
        # kernel shapes / reducers
        A("focal_apply", 0, F8N), A("focal_apply", 1, F8N), A("focal_apply", 2, F8N), A("focal_apply", 3, F4N),
        A("convolution_2d", 0, F4N), A("convolution_2d", 1, F4N), A("convolution_2d", 2, F4D),
        A("hotspots", 0, F4N), A("hotspots", 1, F4N),
        # mutable defaults: excludes=[nan], stats_funcs=[...]
        A("focal_mean", 0, F8N), A("focal_mean", 2, F8N), A("focal_mean", 1, F8N), A("focal_mean", 0, F8D),
        A("focal_stats", 0, F4N, cost=4), A("focal_stats", 1, F4N),
        A("zonal_stats", 0, F8N), A("zonal_stats", 1, F8N, p="p0"), A("zonal_stats", 2, F8N), A("zonal_stats", 3, F8N),
        A("zonal_stats", 0, F8D), A("zonal_stats", 2, F8D),
        A("zonal_crosstab", 0, I4N), A("zonal_crosstab", 3, I4N),
        A("zonal_apply", 0, F8N), A("zonal_apply", 1, F8N),
        # k, dtypes, backends
        A("quantile", 0, F8N), A("quantile", 1, F8N), A("natural_breaks", 0, F8N), A("natural_breaks", 1, F8N),
        A("reclassify", 0, F8N), A("reclassify", 1, F8N), A("reclassify", 0, I4N),
        A("slope", 0, F4N), A("slope", 0, I4N), A("slope", 0, F4D), A("binary", 0, F8N), A("binary", 1, I4N),
        # type-generated comparison
        A("polygonize", 0, I4N, cost=5), A("polygonize", 0, F8N, cost=2), A("polygonize", 1, I4N),
        A("regions", 0, F8N), A("regions", 1, F8N),
        # barriers=[] default
        A("a_star_search", 0, F8N, cost=3), A("a_star_search", 1, F8N),
        # seeded generators and the unseeded RNG consumer
        A("perlin", 0, F4N), A("perlin", 1, F4N, p="p0"), A("perlin", 2, F4N), A("perlin", 0, F4D),
        A("generate_terrain", 0, F8N), A("generate_terrain", 1, F8N, p="p0"), A("generate_terrain", 2, F8N),
        A("bump", 0, F8N), A("bump", 1, F8N),
        # module tables: local.funcs, trim default
        A("local_cell_stats", 0, I4N), A("local_cell_stats", 1, I4N), A("trim", 1, F8N, p="dflt"), A("trim", 0, F8N, p="v1"),
        # larger rasters (thread interleaving): shared scratch buffers of the prange kernels, dask block scheduling
        A("focal_apply", 0, F4B), A("focal_apply", 2, F4B), A("convolution_2d", 0, F4B), A("focal_mean", 0, F4B),
        A("hotspots", 0, F4B), A("slope", 0, F4B), A("proximity", 0, F4B), A("focal_apply", 0, F4BD), A("slope", 0, F4BD),
        A("zonal_stats", 0, F4BD), A("focal_stats", 1, F4BD),
        A("viewshed", 0, F8N, tier="thorough", cost=22), A("viewshed", 1, F8N, tier="thorough"),
        A("equal_interval", 0, F8N, tier="thorough"), A("equal_interval", 1, F8N, tier="thorough"),
        A("true_color", 0, F4N, tier="thorough"), A("ndvi", 0, F4N, tier="thorough"), A("ndvi", 0, F8D, tier="thorough"),
    ]
    if tier != "thorough":
        al = [a for a in al if a["c"] in QUICK]
    ids = [a["c"] for a in al]
    assert len(ids) == len(set(ids)), "duplicate call ids"
    return al


def tla_alphabet(al):
    return core.Raw("{" + ", ".join('[f |-> "%s", p |-> "%s", sig |-> "%s"]' % (a["f"], a["p"], a["sig"]) for a in al) + "}")


def concrete_constants(al, maxlen, threads=1, mut="none"):
    fs = {a["f"] for a in al}
    return dict(Funcs=fs - GENS - UNSEEDED, Gens=fs & GENS, Unseeded=fs & UNSEEDED,
                Params={a["p"] for a in al if a["p"] != "dflt"} | {"p0"}, Sigs={a["sig"] for a in al},
                Alphabet=tla_alphabet(al), Threads=threads, MAXLEN=maxlen, MUT=mut)


def abstract_constants(mut="none", threads=1, maxlen=3):
    return dict(Funcs={"prox", "zstats"}, Gens={"perlin"}, Unseeded={"bump"}, Params={"p0", "p1"}, Sigs={"f4", "i4"},
                Alphabet=core.Raw("Calls"), Threads=threads, MAXLEN=maxlen, MUT=mut)


def parse_hist_state(txt):
    """last `hist = <<...>>` of a simulated behaviour -> [(f, p, sig)]"""
    i = txt.rfind("hist = ")
    if i < 0:
        return []
    j = txt.find("\n/\\", i)
    seg = txt[i:j if j > 0 else len(txt)]
    return re.findall(r'\[\s*f \|-> "([^"]*)",\s*p \|-> "([^"]*)",\s*sig \|-> "([^"]*)"\s*\]', seg)


def fresh_digests(ctx, calls, cache, repeat=1):
    """one fresh interpreter per distinct call (threads = 1) -> {c: digest}; cached within the run"""
    todo = [a for a in calls if a["c"] not in cache]
    if not todo:
        return
    todo.sort(key=lambda a: -a["cost"])
    for rep in range(repeat):
        parts = [[{"hid": k, "threads": 1, "calls": [a]}] for k, a in enumerate(todo)]
        res = alias_run.run_pool("hist_worker", parts, env={"NUMBA_NUM_THREADS": "1"})
        for a, r in zip(todo, res):
            r = r[0]
            if "machinery_error" in r:
                raise core.MachineryError("hist_worker (fresh) failed on %s:\n%s" % (a["c"], r["machinery_error"]))
            e = r["events"][0]
            d = ("raised:" + e["err"].split(":")[0]) if e["raised"] else e["digest"]
            if a["c"] in cache and cache[a["c"]] != d and a["f"] not in UNSEEDED:
                ctx.violation("%s:fresh-interpreters-disagree" % a["f"], "result_differs_from_fresh_interpreter",
                              {"call": a, "digests": [cache[a["c"]], d]}, "two fresh interpreters, same call")
            cache[a["c"]] = d
            ctx.evaluations += 1


def run_histories(ctx, hists, al_by_key, threads):
    """hists: list of [(f,p,sig)]; threads: int or list of ints (one per history); one process per history,
    all in one 16-process pool"""
    if isinstance(threads, int):
        threads = [threads] * len(hists)
    jobs = []
    for k, h in enumerate(hists):
        jobs.append({"hid": k, "threads": threads[k], "calls": [al_by_key[x] for x in h]})
    res = alias_run.run_pool("hist_worker", [[j] for j in jobs],
                             envs=[{"NUMBA_NUM_THREADS": str(t)} for t in threads])
    out = []
    for j, r in zip(jobs, res):
        r = r[0]
        if "machinery_error" in r:
            raise core.MachineryError("hist_worker failed on history %s:\n%s" % (j["hid"], r["machinery_error"]))
        out.append(r)
    return out


def run_all(ctx, fresh_calls, repeat, hists, threads, al_by_key, grouped=False):
    """fresh-interpreter references and history replays in ONE 16-process pool (longest first).
    -> (cache {c: digest}, history results in the order of `hists`)"""
    fresh_calls = sorted(fresh_calls, key=lambda a: -a["cost"])
    if grouped:
        fparts = [[{"hid": -1, "threads": 1, "calls": g}] for g in reference_groups(fresh_calls)]
    else:
        fparts = [[{"hid": -1, "threads": 1, "calls": [a]}] for _ in range(repeat) for a in fresh_calls]
    hjobs = [{"hid": k, "threads": threads[k], "calls": [al_by_key[x] for x in h]} for k, h in enumerate(hists)]
    parts = [[j] for j in hjobs] + fparts          # histories are the long jobs: start them first
    envs = [{"NUMBA_NUM_THREADS": str(j["threads"])} for j in hjobs] + [{"NUMBA_NUM_THREADS": "1"}] * len(fparts)
    res = alias_run.run_pool("hist_worker", parts, envs=envs)
    cache = {}
    for part, r in zip(parts[len(hjobs):], res[len(hjobs):]):
        r = r[0]
        if "machinery_error" in r:
            raise core.MachineryError("hist_worker (reference) failed on %s:\n%s" % ([a["c"] for a in part[0]["calls"]], r["machinery_error"]))
        for a, e in zip(part[0]["calls"], r["events"]):
            d = ("raised:" + e["err"].split(":")[0]) if e["raised"] else e["digest"]
            if a["c"] in cache and cache[a["c"]] != d and a["f"] not in UNSEEDED:
                ctx.violation("%s:fresh-interpreters-disagree" % a["f"], "result_differs_from_fresh_interpreter",
                              {"call": a, "digests": [cache[a["c"]], d]}, "two fresh interpreters, same call")
            cache[a["c"]] = d
            ctx.evaluations += 1
    out = []
    for j, r in zip(hjobs, res[:len(hjobs)]):
        r = r[0]
        if "machinery_error" in r:
            raise core.MachineryError("hist_worker failed on history %s:\n%s" % (j["hid"], r["machinery_error"]))
        out.append(r)
    return cache, out


def to_case(r, cache, al_by_c):
    evs = []
    for e in r["events"]:
        a = al_by_c[e["c"]]
        evs.append({"c": e["c"], "eff": a["eff"], "unseeded": a["f"] in UNSEEDED, "fresh": cache[e["c"]],
                    "digest": ("raised:" + e["err"].split(":")[0]) if e["raised"] else e["digest"],
                    "defaults": e["defaults"], "tables": e["tables"], "jit": e["jit"]})
    return {"threads": r["threads"], "init": {k: r["init"][k] for k in ("defaults", "tables", "jit")}, "events": evs}


def nontrivial(h):
    seen = {}
    for f, p, sig in h:
        seen.setdefault(f, set()).add((p, sig))
    return any(len(v) >= 2 for v in seen.values())


def handle(ctx, results, cases, verdicts, kinds):
    for i, (r, case) in enumerate(zip(results, cases)):
        kind = kinds if isinstance(kinds, str) else kinds[i]
        cl = verdicts.get(i, "missing")
        extra = ctx.judge_extra.get(i) or ""
        h = tuple(e["c"] for e in r["events"])
        if nontrivial([tuple(c.split("|")) for c in h]):
            ctx.nontrivial((kind, r["threads"], h))
        if cl != "ok":
            cid = extra.rsplit("@", 1)[0]          # call ids may contain '@' (@seed, @shape ...): the event index is last
            f = cid.split("|")[0]
            idx = int(extra.rsplit("@", 1)[1]) - 1 if "@" in extra else 0
            ev = r["events"][idx] if idx < len(r["events"]) else {}
            key = "%s:%s" % (f, cl)
            if kind.startswith("threads") and cl == "result_differs_from_fresh_interpreter":
                key = "%s:thread-count-changes-result" % f
            ctx.violation(key, cl,
                          {"history": list(h), "threads": r["threads"], "kind": kind, "at": extra, "observed": case["events"][idx] if idx < len(case["events"]) else None,
                           "defaults_changed_in": ev.get("defaults_changed_in"), "err": ev.get("err")},
                          "%s threads=%d %s after %s" % (kind, r["threads"], extra, list(h[:idx])[-3:]))
        elif extra.startswith("drift"):
            ctx.report_drift("%s threads=%d: %s" % (kind, r["threads"], extra))


def run(ctx):
    ctx.rule = ("a history is non-trivial when it contains two calls to one function with different arguments "
                "(parameters, dtype or backend); distinct by (thread count, sequence of calls); alphabet rule: every "
                "parameter of every function varies alone in some pair of calls")
    ctx.assumptions = [
        "results are compared by sha1 of dtype + shape + raw bytes of the computed values, plus coordinates, attributes, name",
        "the fresh-interpreter reference runs each distinct call alone in its own process with 1 Numba / dask thread",
        "inputs of every call are rebuilt from scratch (same values), so C10-style input mutation cannot leak between calls",
        "bump has no seed parameter (random by design): its result is unconstrained, it only serves as RNG consumer",
        "after each call the harness overwrites the result in place (arrays, DataFrame columns, attrs): a result must not "
        "alias hidden library state, repeated calls must still equal the reference",
        "thread timing is sampled (NUMBA_NUM_THREADS and dask threaded scheduler with 4 / 16 workers), not enumerated",
    ]
    rng = random.Random(ctx.seed * 7919 + 11)

    import os
    focus = set(filter(None, os.environ.get("VERIF_FOCUS", "").split(",")))
    if focus:
        ctx.note("VERIF_FOCUS=%s: partial run, not a registered configuration" % sorted(focus))
    else:
        model_part(ctx)
    # quick: the one-parameter alphabet (every function, every parameter) + thread counts; thorough: additionally the
    # colliding alphabet with strict one-call-per-interpreter references, long simulated histories and all ordered pairs
    pair_part(ctx, alias_run.repo_fingerprint(), focus)
    if ctx.tier == "thorough" or focus:
        replay_part(ctx, rng, focus)
    keys = {}
    for k, _cl, _p in ctx.violations:
        keys[k] = keys.get(k, 0) + 1
    ctx.extra["violation_keys"] = keys


def model_part(ctx):
    # ---------------------------------------------------------------- M
    inv = ["TypeOK", "RepeatIdempotent", "DefaultIsExplicit"]
    props = ["ResultDependsOnlyOnArgs", "ResultIsFresh", "HiddenStateFrozen", "JitOnlyGrows", "CallerWriteIsLocal"]
    ctx.model_check("History", dict(spec="Spec", invariants=inv, properties=props,
                                    constants=abstract_constants(maxlen=ctx.pick(3, 4))), "all_histories", coverage=True)
    if ctx.tier == "thorough":
        ctx.model_check("History", dict(spec="Spec", invariants=inv, properties=props,
                                        constants=abstract_constants(maxlen=3, threads=16)), "all_histories_16_threads")
    for mut, prop, thr in (("stale_closure", "ResultIsFresh", 1), ("mutable_default", "HiddenStateFrozen", 1),
                           ("mutable_default", "ResultIsFresh", 1), ("table_pop", "HiddenStateFrozen", 1),
                           ("table_pop", "ResultIsFresh", 1), ("rng_no_reseed", "ResultIsFresh", 1),
                           ("race", "ResultIsFresh", 4),
                           # the function hands out its memoised result object: a caller editing it poisons later calls
                           ("result_is_cache", "ResultIsFresh", 1), ("result_is_cache", "CallerWriteIsLocal", 1)):
        ctx.model_check("History", dict(spec="Spec", properties=[prop], constants=abstract_constants(mut=mut, threads=thr)),
                        "neg_%s_%s" % (mut, prop), expect="violation")
    ctx.model_check("History", dict(spec="Spec", invariants=["DefaultIsExplicit"],
                                    constants=abstract_constants(mut="mutable_default")), "neg_mutable_default_inv", expect="violation")
    ctx.model_check("History", dict(spec="Spec", invariants=["RepeatIdempotent"],
                                    constants=abstract_constants(mut="rng_no_reseed")), "neg_rng_no_reseed_inv", expect="violation")
    if ctx.tier != "thorough":
        ctx.exhaustive = True
        return
    # a stale compiled closure is perfectly repeatable: only the comparison with a fresh interpreter exposes it
    r = ctx.model_check("History", dict(spec="Spec", invariants=["RepeatIdempotent", "DefaultIsExplicit"],
                                        constants=abstract_constants(mut="stale_closure")), "stale_closure_is_idempotent")
    if not r.ok:
        raise core.MachineryError("stale closure twin breaks idempotence: model changed")
    # the race twin is invisible with one thread: why a single-threaded test cannot expose it
    r = ctx.model_check("History", dict(spec="Spec", invariants=inv, properties=props,
                                        constants=abstract_constants(mut="race", threads=1)), "race_one_thread")
    if not r.ok:
        raise core.MachineryError("race twin visible with one thread")
    ctx.exhaustive = True



def pair_part(ctx, fp0, focus=None):
    """the one-parameter alphabet (c11_pairs): A,B,A / B,A,B schedules in two warm processes per function group, the float
    reductions under NUMBA_NUM_THREADS in {1, 2, 4, 16} (environment and numba.set_num_threads), and a few TLC-simulated
    histories over the same alphabet; all in one pool, all judged by History_Trace."""
    quick = ctx.tier != "thorough"
    ents = c11_pairs.entries(ctx.tier)
    thr = c11_pairs.thread_entries()
    joint = c11_pairs.joint_entries()
    if focus:
        joint = [e for e in joint if e["f"] in focus]
    if focus:
        ents = [e for e in ents if e["f"] in focus or e["f"] in ("slope", "bump")]
        thr = [e for e in thr if e["f"] in focus or e["f"] == "slope"]
    sal = c11_pairs.shared_alphabet()
    if focus:
        sal = [e for e in sal if e["f"] in focus]
    by_c = {e["c"]: e for e in ents + thr + joint + sal}
    by_key = {(e["f"], e["p"], e["sig"]): e for e in ents}
    procs, refproc = c11_pairs.schedules(ents, nproc=ctx.pick(9, 14))
    ref = {c: "pairs_%02d" % i for c, i in refproc.items()}
    ref.update({e["c"]: "threads_env_1" for e in thr})
    ref.update({e["c"]: "dask_joint" for e in joint})
    ref.update({e["c"]: "shared_reference" for e in sal})
    jobs, kinds, envs = [], [], []

    def add(kind, threads, calls, numba_threads=None):
        jobs.append({"hid": len(jobs), "threads": threads, "calls": calls})
        kinds.append(kind)
        envs.append({"NUMBA_NUM_THREADS": str(numba_threads or threads)})
    for i, calls in enumerate(procs):
        add("pairs_%02d" % i, 1, calls)
    # quick: 1 and 4 threads by environment, 1 / 2 / 4 / 16 in-process via set_num_threads (process started with 16)
    env_threads = (1, 4) if quick else (1, 2, 4, 16)
    for n in env_threads:
        add("threads_env_%d" % n, n, thr + thr)          # every call twice: bit-identical repeats as well
    if joint:
        add("dask_joint", 4, joint)
    if sal:
        # sessions that REUSE objects (one kernel array, one raster, one surface); reference: every call with fresh objects
        rcalls = [c11_pairs.unshared(e, n) for n, e in enumerate(list(reversed(sal)) + list(reversed(sal)))]
        add("shared_reference", 1, rcalls)
        designed = []
        for sess in c11_pairs.shared_sessions(sal):
            sess = [dict(e) for e in sess]
            sess[-1]["flush"] = True              # deferred Dask results are computed when their session ends
            designed += sess
        sfs = {e["f"] for e in sal}
        scst = dict(Funcs=sfs, Gens=set(), Unseeded=set(), Params={e["p"] for e in sal} | {"p0"}, Sigs={e["sig"] for e in sal},
                    Alphabet=tla_alphabet(sal), Threads=1, MAXLEN=12, MUT="none")
        skey = {(e["f"], e["p"], e["sig"]): e for e in sal}
        sim = []
        for k, fp in enumerate(ctx.simulate("History", dict(spec="Spec", constants=scst), "shared_object_sessions",
                                            num=ctx.pick(4, 24), depth=20)):
            h = parse_hist_state(open(fp).read())
            if sim:
                sim[-1]["flush"] = True
            for x in h:
                if x in skey:
                    e = dict(skey[x])
                    if e.get("share"):
                        e["share"] = e["share"] + "#%d" % k
                    if e.get("shared_kernel"):
                        e["shared_kernel"] = dict(e["shared_kernel"], id="K#s%d" % k)
                    sim.append(e)
        add("shared_sessions", 1, designed + sim)        # designed sessions first, then the TLC-simulated ones (own objects)
    add("threads_set_num_threads", 16, [dict(e, set_threads=n) for n in (1, 2, 4, 16) for e in thr], numba_threads=16)
    # TLC-simulated histories over the one-parameter alphabet (cross-function interleavings)
    fs = {e["f"] for e in ents}
    cst = dict(Funcs=fs - GENS - UNSEEDED, Gens=fs & GENS, Unseeded=fs & UNSEEDED, Params={e["p"] for e in ents} | {"p0"},
               Sigs={e["sig"] for e in ents}, Alphabet=tla_alphabet(ents), Threads=1, MAXLEN=ctx.pick(10, 16), MUT="none")
    files = ctx.simulate("History", dict(spec="Spec", constants=cst), "pair_alphabet_histories", num=ctx.pick(2, 40),
                         depth=ctx.pick(10, 16) + 1)
    for fp in files:
        h = parse_hist_state(open(fp).read())
        if h and all(x in by_key for x in h):
            add("simulated", 1, [by_key[x] for x in h])
    res = alias_run.run_pool("hist_worker", [[j] for j in jobs], envs=envs)
    library_unchanged(ctx, fp0)
    results = []
    for j, r in zip(jobs, res):
        r = r[0]
        if "machinery_error" in r:
            raise core.MachineryError("hist_worker failed on %s:\n%s" % (kinds[j["hid"]], r["machinery_error"]))
        results.append(r)
    # references: base = first call of its function in P1; a variation = its first occurrence in P2 (it ran before any call
    # that differs from it in one parameter only); thread calls = the 1-thread process
    cache = {}

    def dig(e):
        return ("raised:" + e["err"].split(":")[0]) if e["raised"] else e["digest"]
    for kind, r in zip(kinds, results):
        for e in r["events"]:
            c = e["c"]
            if kind == ref[c] and c not in cache:
                cache[c] = dig(e)
    ctx.extra["process_cpu_s"] = {k: r.get("cpu_s") for k, r in zip(kinds, results)}
    raised = sorted({e["c"] + " " + e["err"][:60] for r in results for e in r["events"] if e["raised"]})
    ctx.extra["calls_that_raise"] = raised       # the same exception in every process: consistent, but weak coverage
    missing = [c for c in by_c if c not in cache]
    if missing:
        raise core.MachineryError("no reference for %s" % missing[:5])
    cases = [to_case(r, cache, by_c) for r in results]
    for kind, case in zip(kinds, cases):
        if kind.startswith("shared"):
            # deferred Dask results are computed (and their kernels JIT-compiled) at the end of a session, after other calls:
            # the step-level JIT expectations (drift only) do not apply to these processes
            case["init"]["jit"] = []
            for e in case["events"]:
                e["jit"] = []
    v = ctx.judge("History_Trace", cases, name="one_parameter_pairs", stateful=True, workers=2, parallel=2)
    handle(ctx, results, cases, v, kinds)
    ctx.extra["one_parameter_alphabet"] = {"functions": len(fs), "calls": len(ents), "pairs": len(ents) - len(fs),
                                           "processes": len(jobs), "calls_replayed": sum(len(j["calls"]) for j in jobs),
                                           "thread_counts_env": list(env_threads), "thread_counts_set_num_threads": [1, 2, 4, 16],
                                           "simulated_histories": sum(1 for k in kinds if k == "simulated")}
    ctx.sample({"pairs_00": [c["c"] for c in procs[0]][:12]})
    return cases


def library_unchanged(ctx, fp0):
    fp1 = alias_run.repo_fingerprint()
    ctx.extra["library_fingerprint"] = fp1
    if fp0 != fp1:
        raise core.MachineryError("the library under %s changed while the check was running (%s -> %s): observations of "
                                  "one run are not comparable, run the check again" % (core.REPO, fp0, fp1))


def replay_part(ctx, rng, focus):
    fp0 = alias_run.repo_fingerprint()
    # ---------------------------------------------------------------- R: histories generated by TLC
    al = alphabet(ctx.tier)
    if focus:
        al = [a for a in al if a["f"] in focus or a["c"] in ("bump|dflt|f8n", "slope|dflt|f4n", "binary|dflt|f8n")]
    by_key = {(a["f"], a["p"], a["sig"]): a for a in al}
    by_c = {a["c"]: a for a in al}
    depth = ctx.pick(11, 20)
    nsim = ctx.pick(10, 240)

    def simulate(alpha, n, d, name):
        files = ctx.simulate("History", dict(spec="Spec", constants=concrete_constants(alpha, d)), name, num=n, depth=d + 1)
        hs = []
        for fp in files:
            h = parse_hist_state(open(fp).read())
            if h and all(x in by_key for x in h):
                hs.append(h)
        if len(hs) < n // 2:
            raise core.MachineryError("only %d histories parsed from %d simulated behaviours" % (len(hs), len(files)))
        return hs
    # TLC simulates 8x as many histories as are replayed; the harness keeps the most colliding ones (the non-triviality rule:
    # calls to one function / one module family with different arguments), ties in TLC's order
    def collisions(h):
        n = 0
        for i in range(len(h)):
            for j in range(i + 1, len(h)):
                if h[i] != h[j]:
                    if h[i][0] == h[j][0]:
                        n += 2
                    elif FAMILY.get(h[i][0], h[i][0]) == FAMILY.get(h[j][0], h[j][0]):
                        n += 1
        return n
    cand = simulate(al, nsim * (8 if ctx.tier != "thorough" else 1), depth, "histories")
    hists = sorted(cand, key=lambda h: -collisions(h))[:nsim] if ctx.tier != "thorough" else cand
    # histories for the multi-threaded replays: quick = short ones over the calls where threads can matter (40x48 rasters,
    # Dask graphs), generated by TLC the same way; thorough = a subset of the long ones above
    tal = [a for a in al if a["sig"].endswith("Big") or a["backend"] == "dask"]
    if ctx.tier == "thorough" or len(tal) < 3:
        nsub = ctx.pick(min(4, len(hists)), 64)
        sub, sub16 = hists[:nsub], hists[::-1][:nsub]
    else:
        th = simulate(tal, 24, 7, "thread_histories")
        # keep the four with the most calls on 40x48 NumPy rasters (where Numba threads, if any kernel used them, interleave)
        th = sorted(th, key=lambda h: -len({x for x in h if x[2] == F4B}) * 10 - sum(1 for x in h if x[2] == F4B))[:4]
        sub, sub16 = th[0::2], th[1::2]
    # exhaustive ordered pairs over a small cheap alphabet, enumerated by TLC (thorough)
    pair_hists = []
    if ctx.tier == "thorough" and not focus:
        small = [by_c[c] for c in ("proximity|dflt|f8n", "proximity|v1|f8n", "allocation|v1|f8n", "focal_mean|dflt|f8n",
                                   "focal_mean|v2|f8n", "zonal_stats|dflt|f8n", "zonal_stats|v2|f8n", "perlin|dflt|f4n",
                                   "perlin|v2|f4n", "bump|dflt|f8n", "polygonize|dflt|i4n", "polygonize|dflt|f8n")]
        res = ctx.model_check("History", dict(spec="Spec", invariants=["TypeOK", "Dump"],
                                              constants=concrete_constants(small, 2)), "enumerate_pairs", workers=1)
        for m in re.finditer(r'"HIST",\s*"([^"]*)"', res.out, re.S):
            h = [tuple(x.split("|")) for x in m.group(1).split(";")]
            if len(h) == 2:
                pair_hists.append(h)
        pair_hists = sorted(set(map(tuple, pair_hists)))
        if len(pair_hists) != len(small) ** 2:
            raise core.MachineryError("expected %d ordered pairs from TLC, got %d" % (len(small) ** 2, len(pair_hists)))
        pair_hists = [list(h) for h in pair_hists]

    used = sorted({x for h in hists + sub + sub16 + pair_hists for x in h})
    ctx.extra["alphabet"] = len(al)

    def judge(results, name):
        cases = [to_case(r, cache, by_c) for r in results]
        v = ctx.judge("History_Trace", cases, name=name, stateful=True, workers=2, parallel=2)
        handle(ctx, results, cases, v, name)
        return cases

    allh = hists + sub + sub16 + pair_hists
    thr = [1] * len(hists) + [4] * len(sub) + [16] * len(sub16) + [1] * len(pair_hists)
    # references: thorough = every distinct call ALONE in its own fresh interpreter, twice; quick = fresh interpreters shared
    # by calls of different module families (reference_groups)
    cache, allres = run_all(ctx, [by_key[x] for x in used], ctx.pick(1, 2), allh, thr, by_key,
                            grouped=(ctx.tier != "thorough"))
    ctx.extra["distinct_calls_with_fresh_reference"] = len(cache)
    library_unchanged(ctx, fp0)
    n1, n4, n16 = len(hists), len(sub), len(sub16)
    results = allres[:n1]
    cases = judge(results, "histories_1_thread")
    for r, c in list(zip(results, cases))[:2]:
        ctx.sample({"threads": r["threads"], "history": [e["c"] for e in r["events"]][:8],
                    "digest_vs_fresh": [(e["digest"], e["fresh"]) for e in c["events"]][:4]})
    judge(allres[n1:n1 + n4], "histories_4_threads")
    judge(allres[n1 + n4:n1 + n4 + n16], "histories_16_threads")
    if pair_hists:
        judge(allres[n1 + n4 + n16:], "all_ordered_pairs")
    ctx.extra["histories"] = {"simulated": len(hists), "depth": depth, "threads_4": len(sub), "threads_16": len(sub16),
                              "reference_mode": "shared by families" if ctx.tier != "thorough" else "alone, twice",
                              "exhaustive_pairs": len(pair_hists)}

    keys = {}
    for k, _cl, _p in ctx.violations:
        keys[k] = keys.get(k, 0) + 1
    ctx.extra["violation_keys"] = keys

    # selftest of the binding (thorough): a corrupted digest / a mutated default in a recorded trace must be rejected
    if ctx.tier == "thorough" or ctx.selftest:
        bad = json.loads(json.dumps(cases[0]))
        k = next(i for i, e in enumerate(bad["events"]) if not e["unseeded"])
        bad["events"][k]["digest"] = "0" * 12
        bad2 = json.loads(json.dumps(cases[0]))
        bad2["events"][-1]["defaults"] = "f" * 12
        vv = ctx.judge("History_Trace", [bad, bad2], name="selftest", stateful=True, count_traces=False)
        if vv.get(0) != "result_differs_from_fresh_interpreter" or vv.get(1) != "defaults_mutated":
            raise core.MachineryError("History_Trace accepted a corrupted trace: %s" % vv)


def replay(ctx, rec):
    """re-run exactly the recorded history (and the fresh-interpreter references of its calls)"""
    rec = rec["case"]
    al = alphabet("thorough")
    by_key = {(a["f"], a["p"], a["sig"]): a for a in al}
    by_c = {a["c"]: a for a in al}
    if "history" not in rec:                       # two fresh interpreters disagreed on one call
        fresh_digests(ctx, [rec["call"]], {}, repeat=2)
        return
    h = [tuple(c.split("|")) for c in rec["history"]]
    threads = int(rec.get("threads", 1))
    cache, results = run_all(ctx, [by_key[x] for x in sorted(set(h))], 1, [h], [threads], by_key)
    cases = [to_case(r, cache, by_c) for r in results]
    v = ctx.judge("History_Trace", cases, name="replay", stateful=True)
    handle(ctx, results, cases, v, "replay")
    ctx.sample({"replayed": rec.get("at"), "verdict": v.get(0), "where": ctx.judge_extra.get(0)})
    ctx.note("replayed: verdict %s %s" % (v.get(0), ctx.judge_extra.get(0)))


META = {
    "technique": "TLA+ model of the library's hidden state (JIT signatures and captured closure values, mutable defaults, "
                 "module tables, global RNG) checked by TLC over all short histories; TLC-generated histories over a "
                 "colliding alphabet replayed in one process each, compared call by call with fresh-interpreter runs and "
                 "validated by TLC against the same step operator; repeated under 4 and 16 threads",
    "level_text": "TLC model-checks History.tla over every history up to length 3-4 of a full product alphabet "
                  "(ResultIsFresh, HiddenStateFrozen, JitOnlyGrows, RepeatIdempotent, DefaultIsExplicit; five broken "
                  "designs rejected). Alphabet rule: for every public function and every parameter two calls differ in exactly "
                  "that parameter (254 calls); A,B,A / B,A,B schedules with strict first-call references are replayed in 11 "
                  "warm interpreters, float reductions under NUMBA_NUM_THREADS / set_num_threads in {1,2,4,16}; thorough "
                  "adds TLC-generated long histories over 89 colliding calls with one-call-per-interpreter references "
                  "(simulation; all ordered pairs of 12 calls); each is replayed in one process of the real library "
                  "logging result digest, defaults, module tables, JIT signature counts after every call; "
                  "History_Trace.tla judges each step against the fresh-interpreter digest and the frozen hidden state; "
                  "a subset is repeated with 4 and 16 Numba/dask threads. Histories are sampled, not exhaustive.",
    "level_note": "Trusted: TLC; sha1 digests of results; reference = one fresh subprocess per distinct call (thorough) or fresh "
                  "subprocesses shared by calls of different module families (quick), 1 thread; "
                  "inputs rebuilt per call; thread interleavings are sampled only (no kernel uses parallel=True today).",
}
