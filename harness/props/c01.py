"""C01 - Dask-backed rasters give the NumPy result for every chunking and scheduler.

M  Chunked.tla: symbolic halo pipeline (three edge rules, asymmetric kernel masks, passes, NaN fill) over all
   chunkings of small rasters, with negative twins (halo one short, (rows,cols) swapped, halo not re-applied
   per pass, non-NaN fill); Sched.tla: a global reduction feeding a second block stage under every
   interleaving of N workers (negative twin: reduction taken per block).
R  every chunking (quick: a sample that always contains 1-cell chunks, chunks smaller than the kernel and the
   single block) of seeded rasters x every Dask-capable function x schedulers {synchronous, threads x N,
   seeded random topological orders} through the real code; Chunked_Trace.tla decides each case.
"""
import itertools
import random
import threading

from harness import core

FUNCS_STENCIL = ["slope", "aspect", "curvature", "hillshade"]
INDICES = ["arvi", "evi", "gci", "nbr", "nbr2", "ndvi", "ndmi", "savi", "sipi", "ebbi"]

KERNELS = {
    "k3x3": [[0, 1, 0], [1, 1, 1], [0, 1, 0]],
    "k3x3a": [[1, 0, 0], [0, 1, 1], [0, 0, 1]],
    "k1x3": [[1, 1, 0]],
    "k3x1": [[1], [1], [0]],
    "k3x5": [[1, 0, 0, 0, 1], [0, 0, 1, 0, 0], [0, 1, 0, 0, 1]],
    "k5x3": [[1, 0, 0], [0, 0, 1], [0, 1, 0], [0, 0, 0], [1, 0, 1]],
    "k5x5": [[1, 0, 0, 0, 0], [0, 0, 1, 0, 0], [0, 0, 1, 0, 1], [0, 1, 0, 0, 0], [0, 0, 0, 0, 1]],
}
WEIGHTED = {
    "w3x3": [[0.5, 1, 0], [2, 1, 0.25], [0, 1, 4]],
    "w3x5": [[0.5, 0, 0, 0, 1], [0, 0, 2, 0, 0], [0, 1, 0, 0, 0.25]],
    "w5x3": [[1, 0, 0], [0, 0, 2], [0, 0.5, 0], [0, 0, 0], [4, 0, 1]],
}


def compositions(n):
    out = []
    for bits in itertools.product([0, 1], repeat=n - 1):
        edges = [0] + [i + 1 for i, b in enumerate(bits) if b] + [n]
        out.append([edges[i + 1] - edges[i] for i in range(len(edges) - 1)])
    return out


def pick_chunkings(rng, H, W, n, exhaustive):
    rows, cols = compositions(H), compositions(W)
    allc = [(r, c) for r in rows for c in cols]
    if exhaustive or n >= len(allc):
        sel = allc
    else:
        # always: 1-cell chunks, the single block, full-width row strips and full-height column strips (1-cell and
        # two-part): "one chunk along this axis" shortcuts must look at BOTH axes
        must = [([1] * H, [1] * W), ([H], [W]), ([1] * H, [W]), ([H], [1] * W),
                ([H], [W // 2, W - W // 2]), ([H // 2, H - H // 2], [W])]
        sel = must + rng.sample(allc, n - len(must))
    out = []
    for r, c in sel:
        u = rng.random()
        if u < 0.6:
            s, nw = "synchronous", 1
        elif u < 0.85:
            s, nw = "threads", rng.choice([2, 4, 16])
        else:
            s, nw = "order", rng.randrange(1, 10 ** 6)
        out.append({"rows": r, "cols": c, "sched": s, "nw": nw, "joint": bool(s != "order" and rng.random() < 0.25)})
    return out


def make_vals(rng, H, W, kind):
    vals = []
    for r in range(H):
        row = []
        for c in range(W):
            u = rng.random()
            if kind == "bigint":
                row.append(rng.choice([0, 5, 16777216, 16777217, 16777221, 33554433]))
            elif kind == "int":
                row.append(rng.randrange(0, 10))
            elif kind == "finite":
                # templates of the generators: generate_terrain multiplies the template by 0, so a single NaN cell
                # turns the whole surface into NaN on every backend and the comparison says nothing
                row.append(rng.choice([0, 1, 2.5, 7.25, 100.125]))
            elif kind == "signed":
                # small signed values: band sums cancel exactly (a == -b != 0) in some cells, differences in others
                row.append("nan" if u < 0.08 else rng.choice([-3, -2, -1, 0, 1, 2]))
            elif kind == "offset":
                # large offset, small spread: one-pass variance / single-precision statistics cancel catastrophically
                row.append(30000 + rng.randrange(-20, 21))
            elif u < 0.12:
                row.append("nan")
            elif u < 0.15 and kind == "floatinf":
                row.append(rng.choice(["inf", "-inf"]))
            elif kind == "float64u":
                # values single precision cannot hold: a global min/max taken on a float32 copy shows
                row.append(rng.choice([0.1, 1 / 3, 2500.0001, 16777217.0, 16777219.0, -0.7, 3, 8, 1e-3]))
            else:
                row.append(rng.choice([0, 1, 2, 3, 5, 8, 13, 2.5, 7.25, 100.125, 1000.5]))
        vals.append(row)
    return vals


def build_jobs(ctx, rng):
    quick = ctx.tier == "quick"
    shapes = [(5, 6), (4, 7)] if quick else [(5, 6), (4, 7), (6, 5), (3, 8), (7, 4)]
    nchunk = 10 if quick else 10 ** 9
    jobs = {}      # func label -> list of jobs

    def add(label, func, params, H, W, dtype, kind, radius=(1, 1), geo=None, kh=1, kw=1, passes=1, independent=False):
        vals = make_vals(rng, H, W, kind if kind == "bigint" else ("int" if dtype.startswith(("int", "uint")) else kind))
        # the thorough tier takes EVERY chunking of rasters up to 30 cells, except for the functions whose single
        # Dask evaluation is expensive (16 noise layers, global reductions): a seeded sample of 60 there - measured:
        # exhaustive generate_terrain alone kept one worker busy for > 90 CPU-min
        heavy = func in ("generate_terrain", "perlin", "true_color", "hotspots", "equal_interval")
        ch = pick_chunkings(rng, H, W, min(nchunk, 60) if heavy else nchunk, not quick and H * W <= 30 and not heavy)
        if independent:
            for c in ch:
                u = rng.random()
                if u < 0.4:
                    c["rows2"] = rng.choice(compositions(H))
                    c["cols2"] = rng.choice(compositions(W))
                elif u < 0.8:
                    # the same chunk sizes in another arrangement (equal .chunksize, different .chunks)
                    c["rows2"] = rng.sample(c["rows"], len(c["rows"]))
                    c["cols2"] = rng.sample(c["cols"], len(c["cols"]))
        j = {"func": func, "params": params, "H": H, "W": W, "vals": vals, "dtype": dtype, "radius": list(radius),
             "chunkings": ch, "kh": kh, "kw": kw, "passes": passes, "xs": None, "ys": None, "res": None}
        if rng.random() < 0.35:
            j["layout"] = rng.choice(["F", "T", "S", "R"])      # same values, different buffer layout
        if rng.random() < 0.25:
            j["dims"] = rng.choice([["lat", "lon"], ["row", "col"], ["northing", "easting"]])
        if geo == "res":
            j["res"] = [2.0, 3.0]
        elif geo == "coords":
            j["xs"] = [10 + 2.0 * c for c in range(W)]
            j["ys"] = [50 - 0.5 * r for r in range(H)]
        elif geo == "ascdesc":
            j["xs"] = [40 - 1.5 * c for c in range(W)]        # descending x, ascending y, offsets, non-square
            j["ys"] = [-7 + 0.25 * r for r in range(H)]
        elif geo == "unit":
            j["xs"] = [float(c) for c in range(W)]
            j["ys"] = [float(H - 1 - r) for r in range(H)]
        jobs.setdefault(label, []).append(j)

    dts = ["float32", "float64", "int32", "uint8", "int64", "uint64", "int8", "uint16"]
    for si, (H, W) in enumerate(shapes):
        dtA = dts[si % len(dts)]
        dtB = dts[(si + 2) % len(dts)]
        for f in FUNCS_STENCIL:
            # never the default azimuth/altitude: a parameter dropped on one backend must show
            p = {"az": rng.choice([0, 90, 135, 315]), "alt": rng.choice([10, 45, 80])} if f == "hillshade" else {}
            add(f, f, p, H, W, "float64" if si == 0 else dtA, "floatinf", geo=rng.choice(["res", "coords", "unit", "ascdesc"]))
            if not quick:
                add(f, f, p, H, W, dtB, "float", geo="coords")
        add("focal_mean", "focal_mean", {"passes": 1, "excludes": ["nan"]}, H, W, "float64", "float", passes=1)
        add("focal_mean", "focal_mean", {"passes": 2, "excludes": ["nan", 0]}, H, W, "float32", "float", passes=2)
        # excludes WITHOUT NaN: the NaN halo cells are then averaged like any other cell in the first pass
        add("focal_mean", "focal_mean", {"passes": 2, "excludes": [rng.choice([0, 1, 1000.5])]}, H, W, "float64", "float",
            passes=2)
        if not quick:
            add("focal_mean", "focal_mean", {"passes": 3, "excludes": [1, 2]}, H, W, "int32", "int", passes=3)
        knames = list(KERNELS) if not quick else rng.sample(list(KERNELS), 4)
        for kn in knames:
            K = KERNELS[kn]
            kh, kw = len(K), len(K[0])
            rad = (kh // 2, kw // 2)
            add("focal_apply", "focal_apply", {"kernel": K}, H, W, "float64", "float", rad, kh=kh, kw=kw)
            add("focal_apply", "focal_apply", {"kernel": K, "reducer": rng.choice(["first", "weighted", "count"])},
                H, W, rng.choice(["float32", "int32"]), "float", rad, kh=kh, kw=kw)
            add("focal_stats", "focal_stats", {"kernel": K}, H, W, rng.choice(["float64", "int64"]), "float", rad, kh=kh, kw=kw)
            add("hotspots", "hotspots", {"kernel": K}, H, W, rng.choice(["float32", "float64", "int32"]), "float", rad, kh=kh, kw=kw)
        for wn, K in WEIGHTED.items():
            kh, kw = len(K), len(K[0])
            add("convolution_2d", "convolution_2d", {"kernel": K}, H, W, rng.choice(["float32", "float64", "int32"]),
                "floatinf", (kh // 2, kw // 2), kh=kh, kw=kw)
        add("binary", "binary", {"values": [1, 2, 8]}, H, W, rng.choice(["float64", "int32"]), "floatinf")
        # an empty (legal) list: nothing is listed, NaN / inf cells must still come out as on NumPy
        add("binary", "binary", {"values": []}, H, W, "float64", "floatinf")
        # listed values single precision cannot hold, on float32 AND float64 rasters holding their roundings:
        # a backend that casts the list to the raster dtype finds matches the other backend does not
        add("binary", "binary", {"values": [0.1, 1 / 3, 16777217.0, 3]}, H, W, "float32", "float64u")
        add("binary", "binary", {"values": [0.1, 1 / 3, 16777217.0, 3]}, H, W, "float64", "float64u")
        add("reclassify", "reclassify", {"bins": [0.1, 1 / 3, 2500.0001, 16777217.0], "new_values": [1, 2, 3, 4]}, H, W,
            rng.choice(["float32", "float64"]), "float64u")
        add("reclassify", "reclassify", {"bins": [1, 3, 8, 50], "new_values": [10, 20, 30, 40]}, H, W,
            rng.choice(["float32", "float64", "uint8"]), "floatinf")
        add("equal_interval", "equal_interval", {"k": rng.choice([2, 3, 5])}, H, W, "float64", "float")
        add("equal_interval", "equal_interval", {"k": rng.choice([2, 4])}, H, W, "float64", "float64u")
        add("equal_interval", "equal_interval", {"k": 3}, H, W, "int64", "bigint")
        add("hotspots", "hotspots", {"kernel": KERNELS["k3x3"]}, H, W, "float64", "float64u", (1, 1), kh=3, kw=3)
        add("hotspots", "hotspots", {"kernel": KERNELS["k3x3"]}, H, W, rng.choice(["float32", "float64"]), "offset", (1, 1),
            kh=3, kw=3)
        add("equal_interval", "equal_interval", {"k": rng.choice([3, 5])}, H, W, "float32", "offset")
        for f in INDICES:
            p = {}
            if f == "evi":
                p = {"c1": rng.choice([6.0, 1.0, 0.0]), "c2": rng.choice([7.5, 1.0, 0.0]),
                     "soil_factor": rng.choice([1.0, 0.5]), "gain": rng.choice([2.5, 1.0])}
            if f == "savi":
                p = {"soil_factor": rng.choice([1.0, 0.5, 0.0, -0.5])}
            add(f, f, p, H, W, rng.choice(["float32", "float64", "uint8", "uint16", "int32"]), "float", independent=True)
            add(f, f, p, H, W, rng.choice(["float32", "float64"]), "signed", independent=True)
        # true_color: always one float raster with NaN cells (nan-aware global min/max) and one integer raster
        add("true_color", "true_color", {"nodata": 1}, H, W, rng.choice(["float64", "float32"]), "float",
            geo="unit", independent=True)
        add("true_color", "true_color", {"nodata": rng.choice([0, 1, 3])}, H, W, rng.choice(["uint16", "uint8", "int32"]),
            "int", geo="unit", independent=True)
        add("perlin", "perlin", {"freq": rng.choice([[1, 2], [3, 1], [2, 2]]), "seed": rng.randrange(100)}, H, W,
            "float32", "finite")
        add("generate_terrain", "generate_terrain", {"seed": rng.randrange(100), "zfactor": rng.choice([4000, 100])},
            H, W, "float32", "finite", geo="unit")
        # a negative (legal) zfactor flips every comparison made after scaling
        add("generate_terrain", "generate_terrain", {"seed": rng.randrange(100), "zfactor": rng.choice([-250, -1])},
            H, W, "float32", "finite", geo="unit")
        add("generate_terrain", "generate_terrain",
            {"seed": rng.randrange(100), "zfactor": 4000, "x_range": [0, 250], "y_range": [100, 300],
             "full_extent": [0, 0, 500, 500]}, H, W, "float32", "finite", geo="unit")
    # stress family: many blocks running concurrently under the threaded scheduler (shared scratch state shows
    # only when block tasks overlap in time): 288x288 rasters, 48x48 chunks, 7x7 / 5x5 kernels, 8-16 workers
    big = 7
    K7 = [[1 if (r + c) % 2 == 0 or r == c else 0 for c in range(big)] for r in range(big)]
    for (func, params, rad, kh, kw) in (
            ("focal_apply", {"kernel": K7}, (3, 3), 7, 7),
            ("focal_apply", {"kernel": K7, "reducer": "weighted"}, (3, 3), 7, 7),
            ("focal_stats", {"kernel": K7}, (3, 3), 7, 7),
            ("convolution_2d", {"kernel": [[float((r * 7 + c) % 5) for c in range(5)] for r in range(5)]}, (2, 2), 5, 5),
            ("focal_mean", {"passes": 2, "excludes": ["nan"]}, (1, 1), 1, 1),
            ("slope", {}, (1, 1), 1, 1), ("hotspots", {"kernel": K7}, (3, 3), 7, 7)):
        H = W = 288
        vals = [[float(rng.randrange(0, 1000)) for _ in range(W)] for _ in range(H)]
        ch = [{"rows": [48] * 6, "cols": [48] * 6, "sched": "threads", "nw": nw} for nw in (8, 16, 16, 12)]
        if not quick:
            ch += [{"rows": [24] * 12, "cols": [72] * 4, "sched": "threads", "nw": nw} for nw in (4, 16, 16, 16)]
        jobs.setdefault("stress_" + func, []).append(
            {"func": func, "params": params, "H": H, "W": W, "vals": vals, "dtype": "float64", "radius": list(rad),
             "chunkings": ch, "kh": kh, "kw": kw, "passes": params.get("passes", 1), "xs": None, "ys": None,
             "res": None})
    # plateau family: a block of the raster that is exactly constant (a lake / a nodata patch / an all-NaN tile) and
    # ALIGNED with the chunk grid, inside non-constant terrain: per-chunk shortcuts ("flat tile", "empty tile", "tile
    # without NaN") that look at the chunk's own cells and forget the halo show only there
    PH, PW = 8, 9
    for pi, pval in enumerate([5.0, 0.0, "nan"]):
        base = [[float((3 * r + 2 * c) % 11 + r) for c in range(PW)] for r in range(PH)]
        for r in range(2, 6):
            for c in range(3, 6):
                base[r][c] = pval
        aligned = [([2, 4, 2], [3, 3, 3]), ([2, 2, 2, 2], [3, 3, 3]), ([2, 4, 2], [9]), ([8], [3, 3, 3]), ([8], [9]),
                   ([2, 2, 4], [3, 1, 2, 3]),
                   # a one-cell chunk whose whole 3x3 halo lies inside the block (row 3, column 4)
                   ([3, 1, 4], [4, 1, 4])]
        pfuncs = [(f, ({"az": 135, "alt": 30} if f == "hillshade" else {}), (1, 1), 1, 1) for f in FUNCS_STENCIL]
        pfuncs += [("focal_mean", {"passes": 2, "excludes": ["nan"]}, (1, 1), 1, 1),
                   ("focal_apply", {"kernel": KERNELS["k3x3"]}, (1, 1), 3, 3),
                   ("focal_stats", {"kernel": KERNELS["k3x3"]}, (1, 1), 3, 3),
                   ("hotspots", {"kernel": KERNELS["k3x3"]}, (1, 1), 3, 3),
                   ("convolution_2d", {"kernel": WEIGHTED[sorted(WEIGHTED)[0]]},
                    (len(WEIGHTED[sorted(WEIGHTED)[0]]) // 2, len(WEIGHTED[sorted(WEIGHTED)[0]][0]) // 2),
                    len(WEIGHTED[sorted(WEIGHTED)[0]]), len(WEIGHTED[sorted(WEIGHTED)[0]][0])),
                   ("equal_interval", {"k": 3}, (1, 1), 1, 1), ("binary", {"values": [5, 0]}, (1, 1), 1, 1),
                   ("reclassify", {"bins": [1, 5, 9, 50], "new_values": [1, 2, 3, 4]}, (1, 1), 1, 1),
                   ("ndvi", {}, (1, 1), 1, 1), ("evi", {}, (1, 1), 1, 1), ("sipi", {}, (1, 1), 1, 1)]
        if quick:
            pfuncs = pfuncs[pi::3] + [pf for pf in pfuncs[:len(FUNCS_STENCIL)] if pf not in pfuncs[pi::3]][:2]
        for (func, params, rad, kh, kw) in pfuncs:
            chs = [{"rows": r, "cols": c, "sched": "synchronous", "nw": 1} for r, c in aligned]
            jobs.setdefault(func, []).append(
                {"func": func, "params": params, "H": PH, "W": PW, "vals": base, "dtype": "float64",
                 "radius": list(rad), "chunkings": chs, "kh": kh, "kw": kw, "passes": params.get("passes", 1),
                 "xs": None, "ys": None, "res": None})
    # offset family for the global statistics, appended last with its own generator so that the streams of the jobs
    # above are unchanged: hotspots / equal_interval on 30000 +- 20 (a single-precision or one-pass global std /
    # min-max on one backend shows only when the offset dwarfs the spread), float32 and float64, every must-chunking
    rng2 = random.Random(ctx.seed * 7 + 4242)
    for dt in ("float32", "float64"):
        for (H2, W2) in ((6, 7), (5, 8)):
            vals = [[float(30000 + rng2.randrange(-20, 21)) for _ in range(W2)] for _ in range(H2)]
            if (H2, W2) == (5, 8):
                # a cubic ramp instead of noise: heavy tails, z-scores spread densely over +-2.6, so a global std that
                # is off by a few per cent moves cells across the 1.65 / 1.96 / 2.58 confidence thresholds
                H2, W2 = 16, 16
                n2 = H2 * W2
                vals = [[float(30000 + round(20 * ((2.0 * (r * W2 + c) / (n2 - 1) - 1.0) ** 3))) for c in range(W2)]
                        for r in range(H2)]
            chs = [{"rows": r, "cols": c, "sched": "synchronous", "nw": 1}
                   for r, c in (([H2], [W2]), ([1] * H2, [1] * W2), ([H2 // 2, H2 - H2 // 2], [W2]),
                                ([H2], [W2 // 2, W2 - W2 // 2]), ([2, H2 - 2], [3, W2 - 3]))]
            for func, params in (("hotspots", {"kernel": KERNELS["k3x3"]}), ("equal_interval", {"k": 4})):
                jobs.setdefault(func, []).append(
                    {"func": func, "params": params, "H": H2, "W": W2, "vals": vals, "dtype": dt, "radius": [1, 1],
                     "chunkings": chs, "kh": 3 if func == "hotspots" else 1, "kw": 3 if func == "hotspots" else 1,
                     "passes": 1, "xs": None, "ys": None, "res": None})
    return jobs


def mask_offsets(K):
    kh, kw = len(K), len(K[0])
    return [[r - kh // 2, c - kw // 2] for r in range(kh) for c in range(kw) if K[r][c]]


def run_models(ctx):
    quick = ctx.tier == "quick"

    def ch(name, H, W, KH, KW, mask, DY, DX, rule, passes=1, perpass=True, fillnan=True, expect="ok"):
        if mask is None:
            mask = [[dy, dx] for dy in range(-(KH // 2), KH // 2 + 1) for dx in range(-(KW // 2), KW // 2 + 1)]
        raw = core.Raw("{" + ",".join("<<%s,%s>>" % (core.tla(a), core.tla(b)) for a, b in mask) + "}")
        ctx.model_check("Chunked", dict(spec="Spec", invariants=["SameAsWhole"], constants=dict(
            H=H, W=W, KH=KH, KW=KW, KMASK=raw, DY=DY, DX=DX, Rule=rule, PASSES=passes, PERPASS=perpass,
            FILLNAN=fillnan)), name, expect=expect)
    S = 5 if not quick else 4
    ch("nanborder_3x3", S, S, 3, 3, None, 1, 1, "NaNBorder")
    ch("clip_3x3_2passes", 4, 4, 3, 3, None, 1, 1, "Clip", passes=2)
    ch("clip_3x5_asym", S, 5, 3, 5, mask_offsets(KERNELS["k3x5"]), 1, 2, "Clip")
    ch("clip_5x3_asym", 5, S, 5, 3, mask_offsets(KERNELS["k5x3"]), 2, 1, "Clip")
    ch("leaves_3x5", S, 5, 3, 5, mask_offsets(KERNELS["k3x5"]), 1, 2, "NaNIfLeaves")
    ch("leaves_1x3", 3, 5, 1, 3, None, 0, 1, "NaNIfLeaves")
    ch("percell_1x1", S, S, 1, 1, None, 0, 0, "Clip")
    if not quick:
        ch("clip_5x5_asym", 5, 5, 5, 5, mask_offsets(KERNELS["k5x5"]), 2, 2, "Clip")
        ch("leaves_5x5", 5, 6, 5, 5, None, 2, 2, "NaNIfLeaves")
        ch("nanborder_3x3_6x5", 6, 5, 3, 3, None, 1, 1, "NaNBorder")
        ch("clip_3x1", 5, 4, 3, 1, None, 1, 0, "Clip")
        ch("clip_3x3_3passes", 4, 4, 3, 3, None, 1, 1, "Clip", passes=3)
    # negative twins
    ch("neg_depth_swapped", 5, 5, 3, 5, mask_offsets(KERNELS["k3x5"]), 2, 1, "Clip", expect="violation")
    ch("neg_depth_one_short", 5, 5, 5, 3, None, 1, 1, "NaNIfLeaves", expect="violation")
    ch("neg_halo_once_for_2_passes", 4, 4, 3, 3, None, 1, 1, "Clip", passes=2, perpass=False, expect="violation")
    ch("neg_fill_not_nan", 4, 4, 3, 3, None, 1, 1, "Clip", fillnan=False, expect="violation")
    ch("neg_nanborder_no_halo", 4, 4, 3, 3, None, 0, 0, "NaNBorder", expect="violation")
    # scheduler
    inv = ["Deterministic", "NoEarlyRead", "OneWorkerPerTask"]
    for nb, nw in ([(3, 2)] if quick else [(3, 2), (4, 3), (5, 2)]):
        ctx.model_check("Sched", dict(spec="Spec", invariants=inv, properties=["Terminates"], view="view",
                                      constants=dict(NB=nb, NW=nw, PERBLOCK=False)), "sched_%d_%d" % (nb, nw),
                        coverage=(nb == 3))
    ctx.model_check("Sched", dict(spec="Spec", invariants=inv, view="view",
                                  constants=dict(NB=3, NW=2, PERBLOCK=True)), "neg_reduction_per_block",
                    expect="violation")


def run_utils(ctx):
    """Utils.tla: the complete small case space of the shared helpers, replayed into xrspatial.utils"""
    jobs = [{"op": "dispatch", "kind": k} for k in ("numpy", "dask_numpy", "list")]
    variants = []
    for shape, chs in (([2, 3], [[[2], [3]], [[1, 1], [1, 2]], [[2], [1, 1, 1]]]),
                       ([3, 2], [[[3], [2]], [[1, 2], [1, 1]]])):
        variants.append({"kind": "numpy", "shape": shape, "chunks": []})
        for c in chs:
            variants.append({"kind": "dask_numpy", "shape": shape, "chunks": c})
    for n in (1, 2, 3):
        for combo in itertools.product(variants, repeat=n):
            jobs.append({"op": "validate", "arrs": [dict(a) for a in combo]})
    geos = [(0, 4, 5, 0, 6, 4, False), (10, 13, 4, -2, 4, 3, True), (0, 1, 3, 5, 6, 2, False), (-5, 5, 6, 0, 9, 4, True)]
    for (xmin, xmax, w, ymin, ymax, h, ydesc) in geos:
        base = {"op": "resolution", "xmin": xmin, "xmax": xmax, "w": w, "ymin": ymin, "ymax": ymax, "h": h,
                "ydesc": ydesc, "res1": 0, "res2": 0}
        jobs.append(dict(base, resform="none"))
        for f in ("pair_str", "triple", "str"):
            jobs.append(dict(base, resform=f))
        for r1, r2 in ((2, 3), (10, 10), (1, 7)):
            for cont in ("tuple", "list", "ndarray", "ndarray_int"):
                jobs.append(dict(base, resform="pair", res1=r1, res2=r2, container=cont))
            jobs.append(dict(base, resform="scalar", res1=r1, as_float=False))
            jobs.append(dict(base, resform="scalar", res1=r1, as_float=True))
    for W in (1, 10, 1000):
        for x0, x1 in ((0, 35), (-3, 4), (5, 2)):
            for y0, y1 in ((0, 70), (2, -5), (1, 1), (-7, 9)):
                jobs.append({"op": "height", "W": W, "x0": x0, "x1": x1, "y0": y0, "y1": y1})
    res = core.run_jobs("utils_worker", jobs, nproc=4)
    v = ctx.judge("Utils", res, name="utils_cases", parallel=2)
    for i, c in enumerate(res):
        ctx.evaluations += 1
        cl = v.get(i, "missing")
        if cl != "ok":
            ctx.violation("utils:%s" % cl, cl, c, "xrspatial.utils %s" % c["op"])
    ctx.extra["utils_cases"] = len(res)


def known_key(func, clause, case):
    if func == "equal_interval" and clause == "dask_call_raised":
        return "equal_interval:dask-raises"
    return "%s:%s" % (func, clause)


def run(ctx):
    ctx.rule = ("case = (function+parameters, raster, chunking, scheduler); non-trivial when the chunking has >= 2 "
                "blocks on some axis (so a block edge cuts kernel footprints / global reductions span blocks); "
                "distinct by (function label, raster shape+dtype, chunking, scheduler)")
    ctx.assumptions = [
        "equality is numerical (NaN = NaN) on the computed arrays; same-kernel functions must be identical, functions "
        "with a re-associated global reduction within 4 ulp or on cells marked borderline (z within 1e-3 of a "
        "hotspot threshold, value within 1e-6 of an equal_interval cut)",
        "schedulers: synchronous, threads x {2,4,16}, seeded random topological orders of the real task graph",
        "CuPy / dask+cupy paths are not exercised (no GPU in the sandbox)",
    ]
    rng = random.Random(ctx.seed * 15485863 + 1)
    run_models(ctx)
    ctx.exhaustive = ctx.tier == "thorough"
    run_utils(ctx)

    execute(ctx, build_jobs(ctx, rng))


def replay(ctx, rec):
    job = dict(rec["case"]["job"])
    ch = rec["case"]["chunking"]
    job["chunkings"] = [{k: ch[k] for k in ("rows", "cols", "sched", "nw", "rows2", "cols2") if k in ch}]
    execute(ctx, {job["func"]: [job]})


def execute(ctx, jobs):
    labels = sorted(jobs)
    # one process per group of functions so each JIT compilation happens once
    groups = [[] for _ in range(16)]
    order = sorted(labels, key=lambda l: -sum(len(j["chunkings"]) for j in jobs[l]))
    loads = [0] * 16
    for l in order:
        g = loads.index(min(loads))
        groups[g] += jobs[l]
        loads[g] += sum(len(j["chunkings"]) for j in jobs[l])
    results = [None] * 16
    errs = []

    def work(i):
        try:
            results[i] = core.run_jobs("dask_worker", groups[i], nproc=1, timeout=7200) if groups[i] else []
        except Exception as ex:  # noqa
            errs.append(ex)
    ths = [threading.Thread(target=work, args=(i,)) for i in range(16)]
    [t.start() for t in ths]
    [t.join() for t in ths]
    if errs:
        raise errs[0]

    cases, back = [], []
    for gi in range(16):
        for job, res in zip(groups[gi], results[gi]):
            if res["error_np"]:
                ctx.note("numpy call failed (outside domain, skipped): %s %s" % (job["func"], res["error_np"]))
                continue
            job["_informative"] = res.get("ref_informative", 1)
            for c in res["cases"]:
                cases.append({"func": job["func"], "kh": job["kh"], "kw": job["kw"], "passes": job["passes"],
                              "error": c["error"], "lazy": c["lazy"], "overlaps": c["overlaps"],
                              "nblocks_calls": c["nblocks_calls"], "blocks_same_chunks": c["blocks_same_chunks"],
                              "ndiff": c["ndiff"], "maxulp": c["maxulp"], "ndiff_near": c["ndiff_near"],
                              "ndiff_cells": c["ndiff_cells"], "ndiff_borderline": c["ndiff_borderline"],
                              "shape_ok": c["shape_ok"], "dtype_ok": c["dtype_ok"], "meta_ok": c["meta_ok"]})
                back.append((job, c))
    v = ctx.judge("Chunked_Trace", cases, name="dask_vs_numpy", parallel=4)
    drift_seen = set()
    for i, (job, c) in enumerate(back):
        ctx.evaluations += 1
        cl = v.get(i, "missing")
        if (len(c["rows"]) > 1 or len(c["cols"]) > 1) and job.get("_informative", 1) > 0:
            ctx.nontrivial((job["func"], str(job["params"]), job["H"], job["W"], job["dtype"], tuple(c["rows"]),
                            tuple(c["cols"]), c["sched"], c["nw"]))
        ctx.borderline += c["ndiff_borderline"]
        if cl != "ok":
            ctx.violation(known_key(job["func"], cl, c), cl,
                          {"job": {k: job[k] for k in job if k != "chunkings"}, "chunking": c},
                          "%s %dx%d %s rows=%s cols=%s sched=%s %s" % (job["func"], job["H"], job["W"], job["dtype"],
                                                                      c["rows"], c["cols"], c["sched"], c["error"][:120]))
        dr = ctx.judge_extra.get(i) or ""
        if dr.startswith("drift") and (job["func"], dr) not in drift_seen:
            drift_seen.add((job["func"], dr))
            ctx.report_drift("%s: %s (overlaps=%s)" % (job["func"], dr, c["overlaps"]))
    for job, c in back[:: max(1, len(back) // 5)][:5]:
        ctx.sample({"func": job["func"], "params": job["params"], "shape": [job["H"], job["W"]], "dtype": job["dtype"],
                    "rows": c["rows"], "cols": c["cols"], "sched": c["sched"], "overlaps": c["overlaps"],
                    "ndiff": c["ndiff"], "maxulp": c["maxulp"]})
    ctx.extra["functions"] = labels
    # jobs whose NumPy reference has no finite cell at all compare nothing: counted per function, and a function
    # all of whose jobs are of that kind is a hole in the input families (machinery failure, not a verdict)
    vac = {}
    for l in labels:
        js = [j for j in jobs[l] if "_informative" in j]
        vac[l] = [sum(1 for j in js if j["_informative"] == 0), len(js)]
        if js and vac[l][0] == len(js):
            raise core.MachineryError("every %s job has an all-NaN reference: the comparison is vacuous" % l)
    ctx.extra["vacuous_jobs_per_function"] = {l: v for l, v in vac.items() if v[0]}
    ctx.extra["cases_per_function"] = {l: sum(len(j["chunkings"]) for j in jobs[l]) for l in labels}


META = {
    "technique": "TLA+ symbolic halo/trim/assemble model and scheduler model checked by TLC over all chunkings and "
                 "interleavings; real Dask runs over chunkings x schedulers compared with NumPy and judged by TLC",
    "level_text": "Chunked.tla proves on every chunking of small rasters that map_overlap with the halo the code passes "
                  "(per edge rule, asymmetric masks, per pass, NaN fill) reproduces the whole-array result and that "
                  "shorter/swapped/non-NaN/once-only halos do not; Sched.tla proves schedule-independence of a global "
                  "reduction feeding a block stage. Every Dask-capable function is then run on the real code over "
                  "chunkings (thorough: all of them for rasters <= 30 cells) x schedulers and Chunked_Trace.tla decides "
                  "laziness, equality with NumPy (identical, or float rounding / borderline for re-associated "
                  "reductions) and the recorded map_overlap protocol.",
    "level_note": "Trusted: TLC; the numerical comparison and borderline marking done by the worker; Dask's own "
                  "map_overlap/map_blocks implementation; thread timing is sampled (threads x {2,4,16} and random "
                  "topological orders), not enumerated; CuPy paths not covered.",
}
