"""X01 - specification coverage beyond the nineteen listed properties (DESIGN.md section 6 / 11.8).

Not a listed property and not registered in MANIFEST.json: `./check X01` extends the explicit specification to the
public functions no property speaks about and binds it to the code the same way as the property checks do.

M  Bump.tla      the bump accumulator (`_finish_bump`) as a state machine, one action per bump: reach, half-open
                 window, monotonicity, centre sum, state machine = closed-form fold; negative twins `closed`
                 (closed window) and `fresh` (spreads the bump's own height instead of the accumulated one)
R  every sequence of <= 2 bumps on a 3x3 raster (spread 0..2) through the real `bump` (locations injected through
   the height function), judged by TLC against `BumpAll`
T  seeded: longer bump sequences on larger rasters; zonal.apply (2-D and 3-D values, NaN cells, nodata values,
   memory layouts, integer and float dtypes); suggest_zonal_canvas (both projections, ties flagged);
   get_full_extent; lnglat_to_meters (linear easting, odd strictly monotone northing); summarize_terrain
   (= the three separate calls, variable names)
"""
import itertools
import random

from harness import core

META = {
    "technique": "explicit TLA+ specification (ExtrasOps/Bump) checked by TLC; observations of the real functions "
                 "judged by TLC (Extras_Judge)",
    "level_text": "model_checking",
    "level_note": "specification coverage beyond the listed properties; not registered in MANIFEST.json",
    "extra": True,
}

NAN = -999999


def bump_jobs(rng, tier):
    jobs = []
    # R: the complete small scope: 3x3, spread 0..2, <= 2 bumps, heights 1..2
    cells = [(x, y) for x in range(3) for y in range(3)]
    for sp in (0, 1, 2):
        s = max(1, sp * sp)
        for n in (1, 2):
            D = s ** n
            for locs in itertools.product(cells, repeat=n):
                for hs in itertools.product((1, 2), repeat=n):
                    if n == 2 and hs == (2, 2):
                        continue
                    jobs.append({"kind": "bump", "W": 3, "H": 3, "sp": sp, "D": D, "tag": "scope3x3",
                                 "bumps": [[x, y, h * D] for (x, y), h in zip(locs, hs)]})
    # T: seeded larger rasters, non-square, longer sequences, repeated centres, integer height dtypes
    for i in range(120 if tier == "quick" else 1200):
        W, H = rng.randint(1, 9), rng.randint(1, 9)
        sp = rng.choice((0, 1, 1, 2, 2, 3))
        s = max(1, sp * sp)
        n = rng.randint(1, 4 if sp < 3 else 3)
        D = s ** n
        pool = [(rng.randrange(W), rng.randrange(H)) for _ in range(max(1, n - rng.randint(0, 2)))]
        bumps = [[*rng.choice(pool), rng.randint(0, 3) * D] for _ in range(n)]
        jobs.append({"kind": "bump", "W": W, "H": H, "sp": sp, "D": D, "bumps": bumps, "seed": i, "tag": "seeded",
                     "hdtype": rng.choice(("float64", "float64", "float32", "int64", "uint16")) if D == 1
                     else "float64"})
    return jobs


def apply_jobs(rng, tier):
    jobs = []
    for i in range(150 if tier == "quick" else 1500):
        H, W = rng.randint(1, 5), rng.randint(1, 5)
        three_d = i % 4 == 3
        L = rng.randint(1, 3) if three_d else 1
        nodata = rng.choice((0, 0, 1, -1, 7))
        zpool = [nodata, nodata, 1, 2, 3, -4]
        zones = [[rng.choice(zpool) for _ in range(W)] for _ in range(H)]
        vdtype = rng.choice(("float64", "float64", "float32", "int64", "int32"))
        alpha = list(range(-3, 6))
        nanp = 0.0 if vdtype.startswith("int") else 0.2
        values = [[[NAN if rng.random() < nanp else rng.choice(alpha) for _ in range(W)] for _ in range(H)]
                  for _ in range(L)]
        # the function's table over the alphabet: constants, shifts, squares (results stay small integers)
        kind = rng.choice(("const", "shift", "square", "neg"))
        fv = [{"const": 4, "shift": v + 10, "square": v * v, "neg": -v}[kind] for v in alpha]
        jobs.append({"kind": "apply", "zones": zones, "values": values, "nodata": nodata, "fk": alpha, "fv": fv,
                     "three_d": three_d, "vdtype": vdtype, "zdtype": rng.choice(("int64", "int32", "int8", "uint8"))
                     if min(min(r) for r in zones) >= 0 and nodata >= 0 else rng.choice(("int64", "int32", "int8")),
                     "vlayout": rng.choice((None, "F", "T", "S")), "zlayout": rng.choice((None, "F", "S")),
                     "default_nodata": nodata == 0 and rng.random() < 0.5, "f": kind})
    return jobs


def canvas_jobs(rng, tier):
    jobs = []
    for i in range(200 if tier == "quick" else 2000):
        P = rng.choice((1, 4, 9, 20, 25, 30, 50, 100))
        A = rng.randint(1, 40)
        crs = rng.choice(("Mercator", "Geographic"))
        xr_ = rng.randint(1, 40 if crs == "Mercator" else 300)
        yr = rng.randint(1, 40 if crs == "Mercator" else 170)
        jobs.append({"kind": "canvas", "P": P, "A": A, "xr": xr_, "yr": yr, "crs": crs,
                     "x0": rng.randint(-20, 0) if crs == "Mercator" else rng.randint(-180, -1),
                     "y0": rng.randint(-20, 0) if crs == "Mercator" else rng.randint(-90, -1),
                     "how": rng.choice((None, "np")), "seq": rng.choice((None, "list"))})
    for crs in ("Mercator", "Geographic", "mercator", "WGS84", ""):
        jobs.append({"kind": "extent", "crs": crs})
    return jobs


def lnglat_jobs(rng, tier):
    jobs = []
    for i in range(40 if tier == "quick" else 400):
        n = rng.randint(2, 8)
        lat = rng.sample(range(-85, 86), n)
        if i % 2 == 0:
            lat = lat[: n // 2] + [-v for v in lat[: n // 2]] + [0, 45]
        lng = [rng.randint(-180, 180) for _ in lat]
        jobs.append({"kind": "lnglat", "lng": lng, "lat": lat, "how": ("array", "scalar", "list", "tuple")[i % 4]})
    return jobs


def summary_jobs(rng, tier):
    jobs = []
    for i in range(30 if tier == "quick" else 300):
        H, W = rng.randint(3, 6), rng.randint(3, 6)
        grid = [[NAN if rng.random() < 0.1 else rng.randint(0, 9) for _ in range(W)] for _ in range(H)]
        jobs.append({"kind": "summary", "grid": grid, "name": rng.choice(("dem", "elevation", "a-b", "z", None)),
                     "cx": rng.choice((1, 2, 10)), "cy": rng.choice((1, 3)), "layout": rng.choice((None, "F", "S")),
                     "dtype": rng.choice(("float64", "float32"))})
    return jobs


def handle(ctx, cases, verdicts):
    for i, c in enumerate(cases):
        cl = verdicts.get(i)
        if cl is None:
            raise core.MachineryError("no verdict for case %d (%s)" % (i, c.get("kind")))
        extra = ctx.judge_extra.get(i, "")
        if cl == "ok":
            if extra == "bridge_inexact_scale":
                ctx.borderline += 1
            continue
        ctx.violation("%s:%s" % (c["kind"], cl), cl, c.get("job"), "%s %s" % (c.get("error", ""), extra))


def run(ctx):
    ctx.rule = ("bump: sequences with >= 2 bumps sharing a neighbourhood; apply: rasters holding both nodata and "
                "other zones; canvas: distinct (P, A, xr, yr); keyed by kind + shape class")
    ctx.assumptions = ["values are small integers (float bridge exact); rounding error is not decided",
                       "bands_to_img / color_values are not covered: bands_to_img calls datashader's "
                       "`tf.Image.fromarray`, which does not exist, so the function cannot return at all"]
    rng = random.Random(ctx.seed * 7919 + 101)
    inv = ["InvReach", "InvAllZero", "InvHalfOpen", "InvNonNeg", "InvCentre", "InvAccumulated", "InvFold"]
    for sp, n, z in ((0, 2, 2), (1, 3, 2), (2, 2, 2)) + (((1, 4, 1), (3, 2, 1)) if ctx.tier == "thorough" else ()):
        ctx.model_check("Bump", dict(spec="Spec", invariants=inv, properties=["MonoStep"], constants=dict(
            BW=3, BH=3, BN=n, BZ=z, BSP=sp, MUT="none")), "bump_sp%d_n%d" % (sp, n), coverage=(sp == 1))
    ctx.model_check("Bump", dict(spec="Spec", invariants=["InvHalfOpen"], constants=dict(
        BW=3, BH=3, BN=1, BZ=1, BSP=1, MUT="closed")), "twin_closed", expect="violation")
    ctx.model_check("Bump", dict(spec="Spec", invariants=["InvAccumulated"], constants=dict(
        BW=3, BH=3, BN=2, BZ=1, BSP=1, MUT="fresh")), "twin_fresh", expect="violation")
    jobs = bump_jobs(rng, ctx.tier) + apply_jobs(rng, ctx.tier) + canvas_jobs(rng, ctx.tier) \
        + lnglat_jobs(rng, ctx.tier) + summary_jobs(rng, ctx.tier)
    cases = core.run_jobs("extras_worker", jobs, nproc=16)
    for c in cases:
        if "worker_error" in c:
            raise core.MachineryError("worker: %s on %s" % (c["worker_error"], c.get("job")))
        k = c["kind"]
        if k == "bump":
            cs = {tuple(b[:2]) for b in c["bumps"]}
            if len(c["bumps"]) >= 2 and c["sp"] > 0:
                ctx.nontrivial(("bump", c["W"], c["H"], c["sp"], len(c["bumps"]), len(cs)))
        elif k == "apply":
            zs = {z for r in c["zones"] for z in r}
            if c["nodata"] in zs and len(zs) > 1:
                ctx.nontrivial(("apply", c["H"], c["W"], len(c["values"]), c["job"]["vdtype"], c["job"]["f"]))
        elif k == "canvas":
            ctx.nontrivial(("canvas", c["P"], c["A"], c["xr"], c["yr"]))
        elif k in ("lnglat", "summary"):
            ctx.nontrivial((k, len(str(c["job"]))))
    ctx.evaluations += len(cases)
    for k in ("bump", "apply", "canvas", "lnglat", "summary"):
        ctx.sample(next(c["job"] for c in cases if c["kind"] == k))
    by_kind = {}
    for i, c in enumerate(cases):
        by_kind.setdefault("bump" if c["kind"] == "bump" else "apply" if c["kind"] == "apply" else "misc", []).append(i)
    for name, idx in by_kind.items():
        sub = [{k: v for k, v in cases[i].items() if k != "job"} for i in idx]
        verdicts = ctx.judge("Extras_Judge", sub, name="extras_" + name, parallel=4)
        sel = [cases[i] for i in idx]
        handle(ctx, sel, verdicts)
