"""C18 - zonal.trim / zonal.crop return the minimal window, cells and coordinates intact.

M  TrimCrop.tla: the four directional scans of _trim / _crop as a state machine (one step per row /
   column visited) over every raster of small grids; at the end the scans must hold the minimal window
   (abstract: smallest rectangle containing every kept cell, NaN excluded when listed).  The scan is
   modelled with the code's membership test `e == val or (isnan(e) and isnan(val))` (CODE_NANEQ = TRUE, since
   fix 4e18dc9): every configuration passes, NaN listed or not.  Negative twins: the bare `e == val` of the old
   code (CODE_NANEQ = FALSE) is REJECTED by TLC when NaN is listed; three broken scans are rejected.
R  every kept-mask of the same grids through the real trim (int data/[0]; float data with the default
   NaN, [NaN, 0.0], [0.0]) and crop (zone-id lists), judged by TrimCrop_Judge.tla: the returned window is
   identified by its coordinates and must be the bounding box, with the original's cells and attrs.
T  seeded larger rasters: dtypes, scales, coordinate orders, dims, tuple/list arguments, memory layouts.
"""
import hashlib
import itertools
import json
import random

from harness import core

NAN = -99
PINF, NINF = -97, -96
# how the *model of the code* (_trim) compares NaN with NaN.  True = `e == val or (isnan(e) and isnan(val))`
# (the code since fix 4e18dc9).  If _trim ever falls back to the bare `e == val`, the cases with a listed NaN
# fail with key trim:nan-never-excluded and DRIFT lines report that the scan no longer follows this model.
CODE_NANEQ = True

# keep the judge JVMs small: the machine is shared (core.judge asks for -Xmx6g per JVM)
JVM_ENV = {"_JAVA_OPTIONS": "-Xmx1500m -XX:ParallelGCThreads=2"}
# tiny state spaces: JVM start-up dominates - C1 compiler only, two GC threads
MC_SMALL_ENV = {"_JAVA_OPTIONS": "-Xmx1g -XX:ParallelGCThreads=2 -XX:TieredStopAtLevel=1 -XX:CICompilerCount=1"}
MC_ENV = {"_JAVA_OPTIONS": "-Xmx3g -XX:ParallelGCThreads=4"}

INV_ALL = ["TypeOK", "ResultIsBox", "ResultIsMinimalWindow", "SliceWellFormed", "TopPrefixEmpty",
           "BottomSuffixEmpty", "LeftPrefixEmpty", "RightSuffixEmpty", "ScanningTop"]
INV_FAST = ["TypeOK", "ResultIsBox", "SliceWellFormed", "TopPrefixEmpty", "BottomSuffixEmpty",
            "LeftPrefixEmpty", "RightSuffixEmpty", "ScanningTop"]


def lists(*ls):
    return core.Raw("{" + ", ".join(core.tla(list(l)) for l in ls) + "}")


def mc(ctx, name, H, W, vals, ls, mode, naneq=CODE_NANEQ, mut="none", expect="ok", inv=INV_ALL, live=True):
    return ctx.model_check("TrimCrop", dict(
        spec="Spec", invariants=inv, properties=["Terminates"] if live else [],
        constants=dict(H=H, W=W, VALS=set(vals), LISTS=lists(*ls), MODE=mode, CODE_NANEQ=naneq, MUT=mut)),
        name, expect=expect, workers=(2 if H * W <= 6 else 4) if H * W <= 12 else 16,
        env=MC_SMALL_ENV if H * W <= 9 else MC_ENV)


# ---------------------------------------------------------------------------------------------- families
# A family turns a kept-mask into a job: which codes the kept / excluded cells carry and what is listed.
def fam_job(fam, mask, H, W, ys=None, xs=None, **kw):
    def alt(r, c, a, b):
        return a if (r + c) % 2 == 0 else b
    mode, dtype, lst, kind = "trim", "float64", None, "list"
    if fam == "int_0":                 # integer raster, values=[0]
        dtype, lst = "int64", [0]
        cell = lambda r, c, k: 1 if k else 0
    elif fam == "int_0_2":             # integer raster, two excluded values, kept cells 1 / 3
        dtype, lst = "int64", [0, 2]
        cell = lambda r, c, k: alt(r, c, 1, 3) if k else alt(r, c, 0, 2)
    elif fam == "float_default_nan":   # float raster, trim's default values=(nan,)
        cell = lambda r, c, k: alt(r, c, 1, 0) if k else NAN
    elif fam == "float_nan_0":         # float raster, values=[nan, 0.0]
        lst = [NAN, 0]
        cell = lambda r, c, k: alt(r, c, 1, 2) if k else alt(r, c, NAN, 0)
    elif fam == "float_0":             # float raster, values=[0.0]: NaN is NOT listed, so NaN cells are kept
        lst = [0]
        cell = lambda r, c, k: alt(r, c, 1, NAN) if k else 0
    elif fam == "crop_1_2":            # crop to zones 1 and 2; other zones 0 / 3
        mode, dtype, lst = "crop", "int64", [1, 2]
        cell = lambda r, c, k: alt(r, c, 1, 2) if k else alt(r, c, 0, 3)
    elif fam == "crop_2":              # crop to the single zone 2; float zones raster with NaN elsewhere
        mode, lst, kind = "crop", [2], "tuple"
        cell = lambda r, c, k: 2 if k else alt(r, c, NAN, 1)
    # ---- zone-id lists with duplicates, gaps, unsorted order, absent / negative / float ids: the zone that lies
    #      in the gap of the list is NOT requested, and its cells sit wherever the mask has a non-kept cell
    elif fam == "crop_dup_gap":        # (1, 1, 3): zone 2 is not requested
        mode, dtype, lst, kind = "crop", "int64", [1, 1, 3], "tuple"
        cell = lambda r, c, k: alt(r, c, 1, 3) if k else alt(r, c, 2, 0)
    elif fam == "crop_unsorted_dup":   # [3, 1, 3]
        mode, dtype, lst = "crop", "int32", [3, 1, 3]
        cell = lambda r, c, k: alt(r, c, 3, 1) if k else alt(r, c, 2, 4)
    elif fam == "crop_7_5_5":          # (7, 5, 5): zone 6 is not requested
        mode, dtype, lst, kind = "crop", "int64", [7, 5, 5], "tuple"
        cell = lambda r, c, k: alt(r, c, 7, 5) if k else alt(r, c, 6, 0)
    elif fam == "crop_absent_negative":  # [-2, 9, 4]: zone 9 does not occur, zones -1, 0, 3 are not requested
        mode, dtype, lst = "crop", "int64", [-2, 9, 4]
        cell = lambda r, c, k: alt(r, c, -2, 4) if k else alt(r, c, 3, 0 if r % 2 == 0 else -1)
    elif fam == "crop_float_ids":      # float zones, ids [2.5, 0.5]; 1.5 lies between them, NaN elsewhere
        mode, lst, kw = "crop", [5, 1], dict(kw, scale=0.5)
        cell = lambda r, c, k: alt(r, c, 5, 1) if k else alt(r, c, 3, NAN)
    # ---- 64-bit integers that float64 cannot tell apart (rank mode: code = index into the table)
    elif fam == "trim_i64_neighbours":   # values=[2**53]; 2**53 +- 1 are kept
        dtype, lst = "int64", [1]
        kw = dict(kw, table=[2 ** 53 - 1, 2 ** 53, 2 ** 53 + 1, 2 ** 53 + 2])
        cell = lambda r, c, k: alt(r, c, 2, 0) if k else 1
    elif fam == "trim_i64_negative":     # values=[-2**53 - 1, -2**62]; -2**53, -2**53 - 2, -2**62 + 1 are kept
        dtype, lst = "int64", [2, 0]
        kw = dict(kw, table=[-2 ** 62, -2 ** 62 + 1, -2 ** 53 - 1, -2 ** 53, 7])
        cell = lambda r, c, k: alt(r, c, 3, 1) if k else alt(r, c, 2, 0)
    elif fam == "crop_i64_neighbours":   # zones 2**53 + 1 requested; 2**53 and 2**53 + 2 are other zones
        mode, dtype, lst = "crop", "int64", [1]
        kw = dict(kw, table=[2 ** 53, 2 ** 53 + 1, 2 ** 53 + 2])
        cell = lambda r, c, k: 1 if k else alt(r, c, 0, 2)
    # ---- +inf / -inf cells are ordinary values: kept unless listed, also when NaN is listed
    elif fam in ("inf_kept_default", "inf_kept_nan_tuple"):      # default values=(nan,) / explicit (nan,)
        lst, kind = (None, "list") if fam == "inf_kept_default" else ([NAN], "tuple")
        cell = lambda r, c, k: (PINF if (r + c) % 2 == 0 else (NINF if r % 2 else 1)) if k else NAN
    elif fam == "inf_kept_0_nan":         # values=(0, nan)
        lst, kind = [0, NAN], "tuple"
        cell = lambda r, c, k: (NINF if (r + c) % 2 == 0 else (PINF if c % 2 else 2)) if k else alt(r, c, NAN, 0)
    elif fam == "inf_listed":             # values=(inf,): +inf excluded; -inf, NaN and numbers kept
        lst, kind = [PINF], "tuple"
        cell = lambda r, c, k: (NINF if (r + c) % 2 == 0 else (NAN if r % 2 else 1)) if k else PINF
    elif fam == "nan_inf_listed":         # values=(nan, inf): -inf still kept
        lst, kind = [NAN, PINF], "tuple"
        cell = lambda r, c, k: alt(r, c, NINF, 1) if k else alt(r, c, NAN, PINF)
    # ---- equality is by VALUE, not by bit pattern (float64): -0.0 == 0.0, every NaN is NaN
    elif fam == "negzero_cells":          # values=(0.0,), the excluded cells hold -0.0; NaN is kept
        lst, kind, kw = [0], "tuple", dict(kw, neg_zero_cells=True)
        cell = lambda r, c, k: alt(r, c, 1, NAN) if k else 0
    elif fam == "negzero_listed":         # values=(-0.0,), the excluded cells hold +0.0
        lst, kind, kw = [0], "tuple", dict(kw, neg_zero_listed=True)
        cell = lambda r, c, k: alt(r, c, 2, 1) if k else 0
    elif fam == "odd_nan_default":        # default values=(nan,): NaN cells with the sign bit set (inf - inf, -nan)
        kw = dict(kw, nan_kind="neg")
        cell = lambda r, c, k: alt(r, c, 1, 0) if k else NAN
    elif fam == "odd_nan_0_nan":          # values=(0, nan): NaNs with sign / payload, zeros of both signs
        lst, kind, kw = [0, NAN], "tuple", dict(kw, nan_kind="mixed", neg_zero_cells=True)
        cell = lambda r, c, k: alt(r, c, 1, 2) if k else alt(r, c, NAN, 0)
    # ---- index coordinates with REPEATED labels (monotonic, not strictly): the window is positional
    elif fam == "int_0_dup_coords":       # y labels in pairs (0,0,1,1,..), x labels constant
        dtype, lst = "int64", [0]
        cell = lambda r, c, k: 1 if k else 0
        ys, xs = ys or [r // 2 for r in range(H)], xs or [7] * W
    elif fam == "nan_dup_coords":         # default values; y descending with a repeated label, x in pairs
        cell = lambda r, c, k: alt(r, c, 1, 0) if k else NAN
        ys, xs = ys or [-((r + 1) // 2) for r in range(H)], xs or [3 * (c // 2) for c in range(W)]
    # ---- integer zones with NEGATIVE labels (a -1 "no zone" border, -9999 nodata, the dtype minimum)
    elif fam == "crop_negative_labels":   # ids [1, 2]; other cells -1 / -9999 / 0
        mode, dtype, lst = "crop", "int64", [1, 2]
        cell = lambda r, c, k: alt(r, c, 1, 2) if k else (-1 if (r + c) % 2 == 0 else (-9999 if r % 2 else 0))
    elif fam == "crop_negative_min":      # ids (0, 3) on int32 zones; other cells -1 / int32 min / -2 / 1
        mode, dtype, lst, kind = "crop", "int32", [0, 3], "tuple"
        cell = lambda r, c, k: alt(r, c, 0, 3) if k else (-1 if (r + c) % 2 == 0 else ((-2 ** 31 if c % 2 else -2) if r % 2 else 1))
    elif fam == "crop_negative_listed":   # ids [-1, 2]: a negative id IS requested; -2, 0, 1 are not
        mode, dtype, lst = "crop", "int64", [-1, 2]
        cell = lambda r, c, k: alt(r, c, -1, 2) if k else (-2 if (r + c) % 2 == 0 else (0 if r % 2 else 1))
    # ---- the same on UINT64 rasters: KNOWN FINDING - numba compares uint64 with the int64 list values in float64
    elif fam == "trim_u64_neighbours":
        dtype, lst = "uint64", [1]
        kw = dict(kw, table=[2 ** 53 - 1, 2 ** 53, 2 ** 53 + 1, 2 ** 53 + 2])
        cell = lambda r, c, k: alt(r, c, 2, 0) if k else 1
    elif fam == "crop_u64_neighbours":
        mode, dtype, lst = "crop", "uint64", [1]
        kw = dict(kw, table=[2 ** 53, 2 ** 53 + 1, 2 ** 53 + 2])
        cell = lambda r, c, k: 1 if k else alt(r, c, 0, 2)
    else:
        raise ValueError(fam)
    data = [[cell(r, c, mask[r][c]) for c in range(W)] for r in range(H)]
    j = {"mode": mode, "H": H, "W": W, "data": data, "dtype": dtype, "list": lst, "list_kind": kind,
         "zones_style": "bare" if (sum(map(sum, mask)) + H) % 3 == 0 else "pixel",
         "list_float": dtype.startswith("float"), "ys": ys or [10 * (H - r) for r in range(H)],
         "xs": xs or [5 + 3 * c for c in range(W)], "tag": fam}
    j.update(kw)
    return j


FAMILIES = ["int_0", "float_default_nan", "float_nan_0", "float_0", "crop_1_2", "crop_2", "int_0_2"]
# id lists with duplicates / gaps / absent / negative / float ids, and 64-bit neighbours of an excluded value
FAMILIES2 = ["negzero_cells", "negzero_listed", "odd_nan_default", "odd_nan_0_nan", "int_0_dup_coords",
             "nan_dup_coords", "inf_kept_default", "inf_kept_nan_tuple", "inf_kept_0_nan", "inf_listed", "nan_inf_listed",
             "crop_negative_labels", "crop_negative_min", "crop_negative_listed", "crop_dup_gap", "crop_unsorted_dup", "crop_7_5_5", "crop_absent_negative", "crop_float_ids",
             "trim_i64_neighbours", "trim_i64_negative", "crop_i64_neighbours"]


def all_masks(H, W):
    for bits in itertools.product([0, 1], repeat=H * W):
        if any(bits):
            yield [list(bits[r * W:(r + 1) * W]) for r in range(H)]


def box_of(mask):
    rows = [r for r, row in enumerate(mask) if any(row)]
    cols = [c for c in range(len(mask[0])) if any(row[c] for row in mask)]
    return rows[0], rows[-1], cols[0], cols[-1]


def random_jobs(rng, n):
    jobs = []
    for _ in range(n):
        H, W = rng.choice([(5, 5), (6, 4), (4, 7), (8, 8), (9, 6), (1, 9), (10, 1), (7, 10), (10, 10)])
        style = rng.random()
        mask = [[0] * W for _ in range(H)]
        if style < 0.3:                       # a few isolated kept cells
            for _ in range(rng.choice([1, 1, 2, 3])):
                mask[rng.randrange(H)][rng.randrange(W)] = 1
        elif style < 0.7:                     # a random blob inside a random window
            t, b = sorted((rng.randrange(H), rng.randrange(H)))
            l, r = sorted((rng.randrange(W), rng.randrange(W)))
            for y in range(t, b + 1):
                for x in range(l, r + 1):
                    mask[y][x] = 1 if rng.random() < 0.4 else 0
            mask[rng.randrange(t, b + 1)][rng.randrange(l, r + 1)] = 1
        else:
            dens = rng.choice([0.05, 0.2, 0.6])
            mask = [[1 if rng.random() < dens else 0 for _ in range(W)] for _ in range(H)]
            if not any(map(any, mask)):
                mask[rng.randrange(H)][rng.randrange(W)] = 1
        fam = rng.choice(FAMILIES + FAMILIES2)
        ys = rng.sample(range(-40, 40), H)
        xs = rng.sample(range(-40, 40), W)
        o = rng.random()
        if o < 0.4:
            ys.sort(reverse=True); xs.sort()
        elif o < 0.7:
            ys.sort(); xs.sort()
        if rng.random() < 0.25:                    # monotonic labels with repeats (rounded / constant coordinates)
            ys = sorted(rng.choice(range(-3, 4)) for _ in range(H))
            xs = sorted((rng.choice(range(-3, 4)) for _ in range(W)), reverse=rng.random() < 0.5)
        j = fam_job(fam, mask, H, W, ys=ys, xs=xs)
        j["layout"] = rng.choice(["C", "F", "view", "T", "rev"])
        j["dims"] = rng.choice([["y", "x"], ["lat", "lon"], ["row", "col"]])
        if fam in FAMILIES2:
            pass                                   # dtype / scale / table belong to the family
        elif j["dtype"] == "float64":
            j["dtype"] = rng.choice(["float64", "float32"])
            j["scale"] = rng.choice([1, 0.5, 2.5])
        elif j["dtype"] == "int64":
            j["dtype"] = rng.choice(["int64", "int32", "int16", "int8", "uint8", "uint16", "uint32", "uint64"])
            if rng.random() < 0.3:
                j["list_float"] = True
        if j["list"] is not None:
            j["list_kind"] = rng.choice(["list", "tuple"])
        j["tag"] = "random:" + fam
        jobs.append(j)
    return jobs


KNOWN_U64 = {"trim": "trim:uint64-above-2^53-compared-through-float64",
             "crop": "crop:uint64-above-2^53-compared-through-float64"}


def u64_jobs():
    """A handful of uint64 rasters with values above 2**53 (known finding): every mask of 1x3 and 2x2 plus three
    placements on 3x3 (centre, corner, edge), for trim(values=[2**53]) and crop(zones_ids=[2**53 + 1])."""
    jobs = []
    place = [[[0, 0, 0], [0, 1, 0], [0, 0, 0]], [[1, 0, 0], [0, 0, 0], [0, 0, 0]], [[0, 1, 0], [0, 0, 0], [0, 0, 0]],
             [[0, 0, 0], [0, 0, 0], [0, 0, 1]]]
    for fam in ("trim_u64_neighbours", "crop_u64_neighbours"):
        for (H, W) in ((1, 3), (2, 2)):
            for mask in all_masks(H, W):
                jobs.append(mark_proper(fam_job(fam, mask, H, W), mask))
        for mask in place:
            jobs.append(mark_proper(fam_job(fam, mask, 3, 3), mask))
    return jobs


def collides_through_float64(case):
    """uint64 raster AND some cell / listed value above 2**53 whose float64 rounding equals that of another value
    of the case (cells and list)"""
    j = case["job"]
    t = j.get("table")
    if j.get("dtype") != "uint64" or not t:
        return False
    used = {t[c] for row in case["data"] for c in row} | {t[c] for c in case["list"]}
    return any(a != b and a > 2 ** 53 and float(a) == float(b) for a in used for b in used)


def digest(*parts):
    return hashlib.md5(json.dumps(parts).encode()).hexdigest()[:14]


def strip(case):
    return {k: v for k, v in case.items() if k not in ("job", "tag", "error")}


def key_of(case, clause):
    if collides_through_float64(case):
        return KNOWN_U64[case["mode"]]
    nan_listed = NAN in case["list"] and any(NAN in row for row in case["data"])
    if case["mode"] == "trim" and nan_listed and clause in ("window_not_minimal", "window_is_not_the_bounding_box"):
        # `e == val` never matches NaN: a listed NaN is never excluded
        return "trim:nan-never-excluded"
    return "%s:%s" % (case["mode"], clause)


class Tally:
    def __init__(self, ctx, per_key=3):
        self.ctx, self.per_key, self.by_key, self.drifts = ctx, per_key, {}, 0

    def handle(self, cases, verdicts, kind):
        ctx = self.ctx
        for i, case in enumerate(cases):
            ctx.evaluations += 1
            if "error" in case:
                self.viol("%s:call-raised" % case["mode"], "call_raised", case, case["error"])
                continue
            cl = verdicts.get(i, "missing")
            if cl == "outside_domain_no_kept_cell":
                raise core.MachineryError("driver produced a case without kept cell: %s" % case["job"])
            H, W = case["H"], case["W"]
            o = case["out"]
            # non-trivial: the minimal window is a proper sub-window of the raster
            if case.get("proper"):
                ctx.nontrivial(digest(kind, case["tag"], case["data"], case["list"]))
            if cl != "ok":
                self.viol(key_of(case, cl), cl, case,
                          "%s %dx%d %s list=%s -> window %dx%d" % (case["tag"], H, W, case["job"]["dtype"],
                                                                   case["list"], o["h"], o["w"]))
            dr = ctx.judge_extra.get(i)
            if dr and dr.startswith("drift") and collides_through_float64(case):
                dr = None       # known finding: the compiled scan compares through float64, the model does not
            if dr and dr.startswith("drift"):
                self.drifts += 1
                if self.drifts <= 3:
                    ctx.report_drift("scan model (CODE_NANEQ=%s) vs _trim/_crop: %s on %s data=%s list=%s scan=%s"
                                     % (CODE_NANEQ, dr, case["tag"], case["data"], case["list"], case["scan"]))

    def viol(self, key, clause, case, what):
        n = self.by_key.get(key, 0)
        self.by_key[key] = n + 1
        if n < self.per_key or key in self.ctx.known:
            self.ctx.violation(key, clause, {k: case[k] for k in case if k != "job"} | {"job": case["job"]}, what)

    def finish(self):
        self.ctx.extra["violating_cases_by_key"] = dict(self.by_key)
        self.ctx.extra["drift_cases"] = self.drifts
        for k, n in sorted(self.by_key.items()):
            if k in self.ctx.known:
                self.ctx.note("%d cases hit the known finding %s" % (n, k))
            else:
                self.ctx.note("%d cases violate with key %s (first %d saved for replay)" % (n, k, min(n, self.per_key)))
        if self.drifts > 3:
            self.ctx.report_drift("... %d cases in total disagree with the scan model" % self.drifts)


def observe(ctx, jobs, name, tally, kind, parallel=4):
    # each worker process pays ~5 CPU-s for importing xrspatial/numba: few processes in the quick tier
    cases = core.run_jobs("trim_worker", jobs, nproc=ctx.pick(4, 12))
    for c, j in zip(cases, jobs):
        c["proper"] = j.get("proper", False)
    good = [(i, c) for i, c in enumerate(cases) if "error" not in c]
    v = ctx.judge("TrimCrop_Judge", [strip({k: x for k, x in c.items() if k != "proper"}) for _, c in good],
                  name=name, constants=dict(CODE_NANEQ=CODE_NANEQ), parallel=parallel, env=JVM_ENV)
    verdicts = {good[k][0]: cl for k, cl in v.items()}
    extra = {good[k][0]: ctx.judge_extra.get(k) for k in v}
    ctx.judge_extra.clear()
    ctx.judge_extra.update(extra)
    tally.handle(cases, verdicts, kind)
    return cases


CHUNK = 60000      # cases per fan-out: bounds the memory of the driver and of the judge JVMs


def replay_jobs(rng, thorough):
    """Every kept-mask of the listed grids in every value encoding (generator)."""
    small = [(1, 1), (1, 2), (2, 1), (2, 2), (1, 3), (3, 1), (2, 3), (3, 2), (3, 3), (1, 4), (4, 1), (1, 5),
             (5, 1), (1, 6), (6, 1), (2, 4), (4, 2)]
    mid = [(3, 4), (4, 3)]
    main = ("int_0", "float_default_nan")
    for (H, W) in small + mid:
        for mask in all_masks(H, W):
            for fam in FAMILIES:
                # quick: a seeded 1/2 of 3x4 / 4x3 in the two main encodings, 1/8 in the others
                if (H, W) in mid and not thorough and rng.random() >= (1 / 2 if fam in main else 1 / 8):
                    continue
                yield mark_proper(fam_job(fam, mask, H, W), mask)
            for fam in FAMILIES2:
                # the special families: every mask of the grids with <= 6 cells; in the quick tier a seeded share of
                # the larger ones (3x3: 1/6, 2x4 / 4x2: 1/16, 3x4 / 4x3: 1/64; thorough: all, resp. 1/2 of 3x4 / 4x3)
                n = H * W
                share = 1 if n <= 6 else ((1 / 2 if n == 12 else 1) if thorough else {9: 1 / 6, 8: 1 / 16, 12: 1 / 64}[n])
                if share < 1 and rng.random() >= share:
                    continue
                yield mark_proper(fam_job(fam, mask, H, W), mask)
    for mask in all_masks(4, 4):
        for fam in FAMILIES:
            # thorough: the full 4x4 mask space in the five main encodings; otherwise a seeded 1/64 sample
            if (thorough and fam not in ("int_0_2", "crop_2")) or rng.random() < 1 / 128:
                yield mark_proper(fam_job(fam, mask, 4, 4), mask)
    if thorough:
        for (H, W) in [(2, 7), (7, 2), (1, 10), (10, 1), (3, 5), (5, 3)]:
            for mask in all_masks(H, W):
                for fam in ("int_0", "float_nan_0", "crop_1_2"):
                    if H * W == 15 and fam == "crop_1_2":
                        continue
                    yield mark_proper(fam_job(fam, mask, H, W), mask)


def replay_chunk(ctx, jobs, name, tally, sample=False):
    cases = observe(ctx, jobs, name, tally, "R")
    if sample:
        for c in cases[:: max(1, len(cases) // 4)][:4]:
            ctx.sample({"kind": "replay", "tag": c["tag"], "data": c["data"], "list": c["list"],
                        "scan": c.get("scan"), "out_shape": [c["out"]["h"], c["out"]["w"]] if "out" in c else None})


def mark_proper(job, mask):
    t, b, l, r = box_of(mask)
    job["proper"] = (t, b, l, r) != (0, job["H"] - 1, 0, job["W"] - 1)
    return job


def setup(ctx):
    ctx.rule = ("cases = (function, raster, list); non-trivial when the minimal window is a proper sub-window of "
                "the raster; distinct by (family, raster contents, list)")
    ctx.assumptions = [
        "rasters are encoded as small integer codes (NaN = -99); the real value of a code is code*scale in the "
        "raster's dtype, so equality with the listed values is exact",
        "the returned window is identified by its coordinate values (distinct integers per axis); crop's values "
        "raster carries a distinct id per cell",
        "rasters without any kept cell are outside the property's domain (the window is undefined)",
        "lists are homogeneous python lists/tuples (numba cannot type [nan, 0]: that call raises)",
    ]
    return Tally(ctx)


def replay(ctx, rec):
    """re-run exactly the recorded case through the real trim / crop and the judge"""
    tally = setup(ctx)
    cases = observe(ctx, [rec["case"]["job"]], "replay", tally, "replay", parallel=1)
    ctx.sample({"replayed": rec.get("clause"), "out": cases[0].get("out"), "scan": cases[0].get("scan")})
    tally.finish()


def run(ctx):
    tally = setup(ctx)
    thorough = ctx.tier == "thorough"
    # ------------------------------------------------------------------ M
    nanlists = [[NAN], [NAN, 0], [0]]
    # two-valued rasters: the full mask space
    for (H, W) in [(3, 3), (3, 4), (4, 3), (1, 6), (6, 1), (2, 5)]:
        mc(ctx, "trim_%dx%d" % (H, W), H, W, [0, 1], [[0]], "trim")
    # three-valued rasters incl. NaN cells x lists with and without NaN (NaN kept unless listed)
    mc(ctx, "trim_nan_2x3", 2, 3, [0, 1, NAN], nanlists + [[0, 1]], "trim")
    # crop: id lists incl. duplicates with a gap (zone 2 is NOT requested by (1, 1, 3))
    mc(ctx, "crop_2x3", 2, 3, [0, 1, 2, 3], [[1], [2, 1], [1, 1, 3], [3, 1, 3]], "crop")
    # +inf is an ordinary value: excluded only when listed (also next to a listed NaN)
    mc(ctx, "trim_inf_2x3", 2, 3, [1, NAN, PINF], [[NAN], [PINF], [NAN, PINF], [1, NAN]], "trim")
    mc(ctx, "crop_nan_zones_2x2", 2, 2, [0, 1, 2, NAN], [[1], [1, 2]], "crop")
    if thorough:
        mc(ctx, "trim_4x4", 4, 4, [0, 1], [[0]], "trim", live=False)
        mc(ctx, "trim_nan_3x3", 3, 3, [0, 1, NAN], nanlists + [[0, 1]], "trim", live=False)
        mc(ctx, "crop_3x3", 3, 3, [0, 1, 2], [[1], [1, 2]], "crop", live=False)
        mc(ctx, "crop_3x4", 3, 4, [0, 1, 2], [[1], [2, 1]], "crop", inv=INV_FAST, live=False)
        mc(ctx, "trim_2x7", 2, 7, [0, 1], [[0]], "trim")
        mc(ctx, "trim_5x3", 5, 3, [0, 1], [[0]], "trim")
    # negative twin: the bare `e == val` of the code before 4e18dc9 never excludes a listed NaN
    mc(ctx, "neg_ieee_eq_nan_listed_2x3", 2, 3, [0, 1, NAN], nanlists, "trim", naneq=False,
       expect="violation", inv=["ResultIsMinimalWindow"], live=False)
    # ... while on NaN-free lists it is indistinguishable (so the twin fails only for the stated reason)
    mc(ctx, "ieee_eq_nan_free_lists_2x3", 2, 3, [0, 1, NAN], [[0], [0, 1]], "trim", naneq=False)
    # negative twins: broken scans must be rejected
    mc(ctx, "neg_bottom_range", 3, 3, [0, 1], [[0]], "trim", mut="bottom_range", expect="violation",
       inv=["ResultIsBox"], live=False)
    mc(ctx, "neg_left_rows", 2, 4, [0, 1], [[0]], "trim", mut="left_rows", expect="violation",
       inv=["ResultIsMinimalWindow"], live=False)
    mc(ctx, "neg_right_first_only", 3, 3, [0, 1], [[0]], "trim", mut="right_first_only", expect="violation",
       inv=["ResultIsBox"], live=False)
    ctx.exhaustive = True

    # ------------------------------------------------------------------ R: every kept-mask through the code
    rng = random.Random(ctx.seed * 7919 + 18)
    total, chunk, part = 0, [], 0
    for job in replay_jobs(rng, thorough):
        chunk.append(job)
        if len(chunk) == CHUNK:
            total += len(chunk)
            part += 1
            replay_chunk(ctx, chunk, "replay_masks_%d" % part, tally, sample=(part == 1))
            chunk = []
    if chunk:
        total += len(chunk)
        replay_chunk(ctx, chunk, "replay_masks_%d" % (part + 1), tally, sample=(part == 0))
    ctx.note("R: %d cases (every kept-mask of the listed grids x value encodings)" % total)

    # known finding, exercised deliberately: uint64 rasters with values above 2**53
    observe(ctx, u64_jobs(), "uint64_above_2p53", tally, "R", parallel=1)

    # ------------------------------------------------------------------ T: seeded larger rasters
    jobs = random_jobs(rng, ctx.pick(200, 4000))
    cases = observe(ctx, jobs, "random_rasters", tally, "T", parallel=ctx.pick(4, 8))
    for c in cases:
        if "out" in c and (c["out"]["h"], c["out"]["w"]) != (c["H"], c["W"]):
            ctx.nontrivial(digest("T", c["tag"], c["data"], c["list"]))
    for c in cases[:2]:
        ctx.sample({"kind": "random", "tag": c["tag"], "shape": [c["H"], c["W"]], "list": c["list"],
                    "scan": c.get("scan"), "out_shape": [c["out"]["h"], c["out"]["w"]] if "out" in c else None})
    tally.finish()


META = {
    "technique": "TLA+ state machine of the four directional scans (one step per row/column visited) model-checked "
                 "by TLC over every raster of small grids against the bounding-box definition; every kept-mask "
                 "replayed through the real trim/crop in several value encodings and judged by TLC",
    "level_text": "TLC explores every raster over small value sets on grids up to 4x4 (plus 1xN, Nx1) on TrimCrop.tla: "
                  "the scan model ends on the minimal window of the kept cells, terminates, and its loop invariants hold; "
                  "the old bare `e == val` membership test (negative twin) is rejected by TLC when NaN is listed, as are "
                  "three broken scans.  Every kept-mask of those grids is run through the real trim (int/[0], "
                  "float/default NaN, float/[NaN,0.0], float/[0.0]) and crop (two zone-id lists); TrimCrop_Judge.tla "
                  "decides that the returned window is the bounding box, a contiguous slice with the original's cells, "
                  "coordinates and attrs.  Seeded larger rasters (dtypes, layouts, coordinate orders) the same way.",
    "level_note": "Trusted: TLC; the integer encoding of raster values (code*scale, NaN=-99); identification of the "
                  "returned window by distinct integer coordinates; the direct drive of the compiled _trim/_crop for the "
                  "step-level (drift) comparison.  Rasters with no kept cell are outside the domain.",
}
