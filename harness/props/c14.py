"""C14 - A* returns a valid, shortest path between the cells the caller named.

M  AStar.tla: every crossable/non-crossable layout x every (start, goal) x connectivity on small grids,
   invariants ChainOK, CostOptimal, AllNaNIffUnreachable, ClosedAreFinal, OpenSound, ParentOK (+ negative
   twins); PixelId_MC.tla: coordinate -> cell and snapping algorithms against nearest-centre / nearest
   crossable (`round` / `infinit` = the code since fixes 1c57f27 / a4d4ad0; the pre-fix variants `trunc` /
   `maxinit` are rejected twins); Surd_Check.tla: the exact
   order on a + b sqrt2 + sqrt n against 80-digit arithmetic.
R  the same complete input space through the real a_star_search (compiled): AStar_Trace.tla judges every
   observed path image; in interpreted mode every _min_cost_pixel_id call is logged with the complete
   search state and checked step by step against PopCands / RelaxAll (drift only).
   Snapping: every layout x pair of the 3x3 grid with both end points snapped.
T  mazes with detours up to 7x7, coordinate systems with fractional steps / offsets / descending y and
   points off the cell centres, snapping towards a single crossable cell at every displacement.
"""
import itertools
import json
import math
import os
import random
from fractions import Fraction

from harness import core

INV = ["TypeOK", "ChainOK", "CostOptimal", "AllNaNIffUnreachable", "ClosedAreFinal", "OpenSound", "ParentOK"]
TWINS = [("hsquared", ["ClosedAreFinal", "CostOptimal"]), ("diag1", ["OpenSound", "CostOptimal", "ChainOK"]),
         ("noclosedskip", ["TypeOK", "ClosedAreFinal"]), ("nogreater", ["ClosedAreFinal", "CostOptimal"]),
         ("noparent", ["ParentOK", "ChainOK"]), ("popany", ["ClosedAreFinal", "CostOptimal"])]

KEY_PIX = "pixel_id:truncation-not-nearest-centre"
KEY_PIX_OTHER = "pixel_id:not-nearest-centre"
KEY_SNAP = "snap:nearest-at-max-distance"
MAX_REPLAYS_PER_KEY = 3


# ----------------------------------------------------------------------------- exact helpers (driver side)
def unit_axis(n, desc=False):
    return {"den": 1, "o": (n - 1) if desc else 0, "s": -1 if desc else 1}


def nearest_idx(ax, n, p):
    step = ax["s"] if not ax.get("res") else (ax["res"] if ax["s"] > 0 else -ax["res"])   # a `res` attr wins
    d = [abs(p - (ax["o"] + i * step)) for i in range(n)]
    m = min(d)
    return [i for i in range(n) if d[i] == m]


def named_cells(case, which):
    pt = case[which]
    return {(r, c) for r in nearest_idx(case["yax"], case["H"], pt[0])
            for c in nearest_idx(case["xax"], case["W"], pt[1])}


def classify(case, clause):
    """Stable key of the failing class.  The two known defects are recognised by a predicate on the case;
    everything else is keyed by the failing clause."""
    H, W = case["H"], case["W"]
    ns, ng = named_cells(case, "sp"), named_cells(case, "gp")
    pix = case.get("pix") or [[-1, -1], [-1, -1]]
    if clause in ("start_is_not_the_named_cell", "goal_is_not_the_named_cell", "all_nan_but_route_exists"):
        # the library's own coordinate -> cell conversion did not return the nearest centre
        if tuple(pix[0]) not in ns or tuple(pix[1]) not in ng:
            # truncation answers the nearest index or the one before it (towards coords[0]) on each axis;
            # any other wrong cell (mirrored / transposed axis, ...) is a different class
            def trunc_like(p, named):
                return any(p[0] in (r, r - 1) and p[1] in (c, c - 1) for (r, c) in named)
            return KEY_PIX if trunc_like(pix[0], ns) and trunc_like(pix[1], ng) else KEY_PIX_OTHER
    if clause == "all_nan_but_route_exists":
        cr = [(r, c) for r in range(H) for c in range(W) if case["cross"][r][c]]
        far = (H - 1) ** 2 + (W - 1) ** 2
        for flag, cells in ((case["snapS"], ns), (case["snapG"], ng)):
            for (r, c) in cells:
                if flag and not case["cross"][r][c] and cr and \
                        min((r - a) ** 2 + (c - b) ** 2 for a, b in cr) == far:
                    return KEY_SNAP
    return "astar:%s" % clause


# (barrier list as the caller passes it, values placed on non-crossable cells, values of crossable cells).
# Lists of 0-4 values in ascending, descending and shuffled order, duplicates, values that never occur in the
# surface, negative and fractional values; walls whose value is smaller than an EARLIER entry of the list.
PALETTES = [
    ([0, 9], [0, 9], [1, 2, 3, 4]),
    ([5, 1], [1, 5], [2, 3, 4, 6, 0]),
    ([7, -2, 3.5], [-2, 3.5, 7], [0, 1, 5, 2.25, 9, -1]),
    ([4, 4, 1], [1, 4], [2, 3, 5, 0]),
    ([8, 100, 2, -50], [2, 8], [3, 4, 5, 0, 9]),
    ([2.5, 1.5, 6], [1.5, 6, 2.5], [1, 2, 3, 7]),
    ([3], [3], [1, 2, 4]),
    ([], [], [1, 2, 3]),
    ([9, 6, 3, 1], [1, 3, 6, 9], [0, 2, 4, 5, 7, 8]),
    ([1, 9, 5], [5, 1, 9], [0, 2, 3, 4, 6, 7, 8]),
    # zero as the ONLY barrier value (a list that is "falsy" as a whole), as int, float and negative zero; walls hold
    # 0 / -0.0, open cells are non-zero
    ([0], [0], [1, 2, 3, 4]),
    ([0.0], [0, -0.0], [1, 2.5, -1, 3]),
    ([-0.0], [0, -0.0], [5, 1, -2, 0.5]),
    ([0, 0.0], [0], [7, 1, 2]),
]
NP = len(PALETTES)


def realise(cross, H, W, style):
    """surface values for a crossable mask.  style >= 0: palette style % NP, every third non-crossable cell
    (phase style // NP) is NaN instead of a barrier value; style < 0: palette (-style - 1) % NP, no NaN cells
    (unless the barrier list is empty).  Crossable cells carry several distinct non-barrier values."""
    pal, phase, nan_ok = (style % NP, (style // NP) % 3, True) if style >= 0 else ((-style - 1) % NP, 0, False)
    barriers, placed, free = PALETTES[pal]
    vals = []
    for r in range(H):
        row = []
        for c in range(W):
            i = r * W + c
            if cross[r][c]:
                row.append(free[(i * 3 + phase) % len(free)])
            elif not placed or (nan_ok and (i + phase) % 3 == 0):
                row.append("nan")
            else:
                row.append(placed[(i * 7 + phase) % len(placed)])
        vals.append(row)
    return vals, list(barriers)


def mkjob(H, W, cross, conn, yax, xax, sp, gp, snapS=0, snapG=0, events=False, tag="", style=0, dtype=None):
    vals, barriers = realise(cross, H, W, style)
    j = {"H": H, "W": W, "vals": vals, "barriers": barriers, "conn": conn, "yax": yax, "xax": xax,
         "sp": list(sp), "gp": list(gp), "snapS": snapS, "snapG": snapG, "events": events, "tag": tag,
         "_cross": cross}
    if dtype:
        j["dtype"] = dtype
    return j


def centre(ax, i):
    return ax["o"] + i * ax["s"]


def layout_jobs(H, W, conns, events=False, snap=0, tag="", desc=False, descx=False, keep=1, of=1, seed=0):
    """every layout x every (start, goal) x connectivity; points at the cell centres of unit axes.
    keep/of < 1: a seeded pseudo-random keep/of fraction of that space (quick tier)"""
    yax, xax = unit_axis(H, desc), unit_axis(W, descx)
    pick = random.Random("%s|%d|%d|%d|%d" % (tag, H, W, seed, of))
    jobs = []
    for bits in itertools.product([0, 1], repeat=H * W):
        cross = [list(bits[r * W:(r + 1) * W]) for r in range(H)]
        for s in range(H * W):
            for g in range(H * W):
                for conn in conns:
                    if of > 1 and pick.randrange(of) >= keep:
                        continue
                    style = pick.randrange(3 * NP)
                    jobs.append(mkjob(H, W, cross, conn, yax, xax,
                                      (centre(yax, s // W), centre(xax, s % W)),
                                      (centre(yax, g // W), centre(xax, g % W)),
                                      snapS=snap, snapG=snap, events=events, tag=tag, style=style))
    return jobs


# ----------------------------------------------------------------------------- T generators
def maze(rng, H, W):
    """crossable mask with detours: random walls, serpentine walls with gaps, or random density"""
    kind = rng.choice(["density", "serpentine", "rooms", "density"])
    cross = [[1] * W for _ in range(H)]
    if kind == "density":
        p = rng.choice([0.2, 0.3, 0.4, 0.5])
        cross = [[0 if rng.random() < p else 1 for _ in range(W)] for _ in range(H)]
    elif kind == "serpentine":
        if rng.random() < 0.5:
            for r in range(1, H, 2):
                gap = 0 if (r // 2) % 2 else W - 1
                if rng.random() < 0.3:
                    gap = rng.randrange(W)
                for c in range(W):
                    if c != gap:
                        cross[r][c] = 0
        else:
            for c in range(1, W, 2):
                gap = 0 if (c // 2) % 2 else H - 1
                if rng.random() < 0.3:
                    gap = rng.randrange(H)
                for r in range(H):
                    if r != gap:
                        cross[r][c] = 0
    else:
        for _ in range(rng.randrange(1, 4)):
            if rng.random() < 0.5:
                r = rng.randrange(H)
                a, b = sorted((rng.randrange(W), rng.randrange(W)))
                for c in range(a, b + 1):
                    cross[r][c] = 0
            else:
                c = rng.randrange(W)
                a, b = sorted((rng.randrange(H), rng.randrange(H)))
                for r in range(a, b + 1):
                    cross[r][c] = 0
    return cross


def maze_jobs(rng, n, sizes, events=False, f32=True):
    jobs = []
    for _ in range(n):
        H, W = rng.choice(sizes)
        cross = maze(rng, H, W)
        cr = [(r, c) for r in range(H) for c in range(W) if cross[r][c]]
        allc = [(r, c) for r in range(H) for c in range(W)]
        s = rng.choice(cr) if cr and rng.random() < 0.9 else rng.choice(allc)
        g = rng.choice(cr) if cr and rng.random() < 0.9 else rng.choice(allc)
        if cr and rng.random() < 0.5:
            # far apart end points: more detours
            s = min(cr, key=lambda p: (p[0] + p[1], p[0]))
            g = max(cr, key=lambda p: (p[0] + p[1], p[0]))
            if rng.random() < 0.5:
                s, g = g, s
        _, (oy, sy), _ = rng.choice(COORD_SYSTEMS)
        _, _, (ox, sx) = rng.choice(COORD_SYSTEMS)
        snapS, snapG = (int(rng.random() < 0.25), int(rng.random() < 0.25))
        if snapS or snapG:        # nearest-in-pixel-space = nearest-in-coordinate-space only for square cells
            sx = abs(sy) if sx > 0 else -abs(sy)
        fy, fx = fine_axis(oy, sy), fine_axis(ox, sx)      # 0.3 * step is an integer numerator

        def pt(cell):
            # centre, or displaced by 0.3 step in either direction on either axis
            return (centre(fy, cell[0]) + rng.choice([0, 0, 3, -3]) * fy["s"] // 10,
                    centre(fx, cell[1]) + rng.choice([0, 0, 3, -3]) * fx["s"] // 10)
        conn = rng.choice([4, 8, 8])
        dtype = rng.choice([None, None, None, "float32"])
        if not f32:
            dtype = None
        jobs.append(mkjob(H, W, cross, conn, fy, fx, pt(s), pt(g), snapS, snapG, events=events, tag="maze",
                          style=rng.randrange(3 * NP), dtype=dtype))
    return jobs


# ---- mazes whose shortest route is long relative to the perimeter (>= 2(H+W) steps, up to ~H*W/2)
def serpentine(H, W, vertical=False):
    if vertical:
        t = serpentine(W, H)
        return [[t[c][r] for c in range(W)] for r in range(H)]
    cross = [[1] * W for _ in range(H)]
    for r in range(1, H, 2):
        gap = W - 1 if (r // 2) % 2 == 0 else 0
        for c in range(W):
            if c != gap:
                cross[r][c] = 0
    return cross


def spiral(H, W):
    cross = [[0] * W for _ in range(H)]
    r, c, d = 0, 0, 0
    cross[0][0] = 1
    dirs = [(0, 1), (1, 0), (0, -1), (-1, 0)]

    def free(rr, cc, fr, fc):
        """(rr, cc) can be carved coming from (fr, fc): inside, not carved, no carved 4-neighbour but (fr, fc)"""
        if not (0 <= rr < H and 0 <= cc < W) or cross[rr][cc]:
            return False
        return all(not (0 <= rr + a < H and 0 <= cc + b < W and cross[rr + a][cc + b]) or (rr + a, cc + b) == (fr, fc)
                   for a, b in dirs)
    turns = 0
    while turns < 2:
        nr, nc = r + dirs[d][0], c + dirs[d][1]
        if free(nr, nc, r, c):
            cross[nr][nc] = 1
            r, c, turns = nr, nc, 0
        else:
            d, turns = (d + 1) % 4, turns + 1
    return cross


def comb(H, W):
    """spine along the top row, teeth down every other column, every tooth closed at the bottom"""
    return [[1 if (r == 0 or c % 2 == 0) else 0 for c in range(W)] for r in range(H)]


def hop_dist(cross, H, W, conn, s):
    dist = {s: 0}
    todo = [s]
    for (r, c) in todo:
        for a in (-1, 0, 1):
            for b in (-1, 0, 1):
                if (a or b) and (conn == 8 or a == 0 or b == 0):
                    q = (r + a, c + b)
                    if 0 <= q[0] < H and 0 <= q[1] < W and cross[q[0]][q[1]] and q not in dist:
                        dist[q] = dist[(r, c)] + 1
                        todo.append(q)
    return dist


def long_jobs(rng, shapes, extra=0):
    """serpentine / spiral / comb corridors, start at the corridor's entrance, goal at the farthest cell
    (and back), both connectivities; `extra` copies with one random wall opened (a shortcut)"""
    jobs = []
    for (H, W) in shapes:
        for kind in ("serp_h", "serp_v", "spiral", "comb"):
            base = {"serp_h": lambda: serpentine(H, W), "serp_v": lambda: serpentine(H, W, True),
                    "spiral": lambda: spiral(H, W), "comb": lambda: comb(H, W)}[kind]()
            for variant in range(1 + extra):
                cross = [row[:] for row in base]
                if variant:
                    walls = [(r, c) for r in range(H) for c in range(W) if not cross[r][c]]
                    r, c = rng.choice(walls)
                    cross[r][c] = 1
                for conn in (4, 8):
                    d = hop_dist(cross, H, W, conn, (0, 0))
                    far = max(d, key=lambda q: (d[q], q))
                    if kind == "comb":      # bottom of the first tooth -> bottom of the last open tooth
                        s0, far = (H - 1, 0), (H - 1, (W - 1) // 2 * 2)
                    else:
                        s0 = (0, 0)
                    yax, xax = unit_axis(H, desc=(len(jobs) % 2 == 0)), unit_axis(W, desc=(len(jobs) % 4 >= 2))
                    a, b = (s0, far) if len(jobs) % 3 else (far, s0)
                    jobs.append(mkjob(H, W, cross, conn, yax, xax, (centre(yax, a[0]), centre(xax, a[1])),
                                      (centre(yax, b[0]), centre(xax, b[1])), tag="long:" + kind,
                                      style=rng.randrange(3 * NP)))
    return jobs


COORD_SYSTEMS = [
    # (name, y axis as (o, s) Fractions, x axis)
    ("step0.1", (Fraction(0), Fraction(1, 10)), (Fraction(0), Fraction(1, 10))),
    ("step0.1_offset", (Fraction(1, 10), Fraction(1, 10)), (Fraction(1, 10), Fraction(1, 10))),
    ("step0.1_desc_y", (Fraction(3, 10), Fraction(-1, 10)), (Fraction(1, 10), Fraction(1, 10))),
    ("step0.25", (Fraction(7, 2), Fraction(1, 4)), (Fraction(-5, 4), Fraction(1, 4))),
    ("step1/3", (Fraction(0), Fraction(1, 3)), (Fraction(-5, 3), Fraction(1, 3))),
    ("step1/3_desc_y", (Fraction(2), Fraction(-1, 3)), (Fraction(1, 3), Fraction(1, 3))),
    ("step30", (Fraction(-201, 2), Fraction(30)), (Fraction(15), Fraction(30))),
    ("step30_desc_y", (Fraction(90), Fraction(-30)), (Fraction(-100), Fraction(30))),
    ("step1", (Fraction(0), Fraction(1)), (Fraction(0), Fraction(1))),
    ("step1_desc_y", (Fraction(3), Fraction(-1)), (Fraction(10), Fraction(1))),
    ("step0.7_x_2.5_y", (Fraction(1, 2), Fraction(5, 2)), (Fraction(7, 10), Fraction(7, 10))),
    # descending x (ascending y), both descending: a mirror slip on either axis must show
    ("step0.1_desc_x", (Fraction(1, 10), Fraction(1, 10)), (Fraction(4, 10), Fraction(-1, 10))),
    ("step1/3_desc_x_offset", (Fraction(-5, 3), Fraction(1, 3)), (Fraction(7, 3), Fraction(-1, 3))),
    ("step0.25_desc_both", (Fraction(9, 2), Fraction(-1, 4)), (Fraction(-1, 4), Fraction(-1, 4))),
    ("step30_desc_both", (Fraction(45), Fraction(-30)), (Fraction(-201, 2), Fraction(-30))),
    ("step1_desc_x", (Fraction(0), Fraction(1)), (Fraction(14), Fraction(-1))),
    ("step0.7_desc_x_2.5_desc_y", (Fraction(8), Fraction(-5, 2)), (Fraction(7, 2), Fraction(-7, 10))),
]


def fine_axis(o, s):
    """axis record with a denominator in which o, s and 0.3*s are integers"""
    den = 1
    for f in (o, s, s * Fraction(3, 10)):
        den = den * f.denominator // math.gcd(den, f.denominator)
    return {"den": den, "o": int(o * den), "s": int(s * den)}


def coord_jobs(H, W, systems, disps=(0, 3, -3), conn=8, cross=None):
    """every cell of an open (or given) H x W grid as start, displaced by 0 / +-0.3 step on either axis,
    goal at the centre of the opposite corner cell"""
    cross = cross or [[1] * W for _ in range(H)]
    jobs = []
    for name, (oy, sy), (ox, sx) in systems:
        yax, xax = fine_axis(oy, sy), fine_axis(ox, sx)
        for r in range(H):
            for c in range(W):
                gr, gc = (H - 1 if r < H / 2 else 0), (W - 1 if c < W / 2 else 0)
                for dy in disps:
                    for dx in disps:
                        sp = (centre(yax, r) + dy * yax["s"] // 10, centre(xax, c) + dx * xax["s"] // 10)
                        gp = (centre(yax, gr), centre(xax, gc))
                        st = (len(jobs) * 7) % (3 * NP)
                        jobs.append(mkjob(H, W, cross, conn, yax, xax, sp, gp, tag="coords:" + name, style=st))
                        if dy == 0 and dx == 0:
                            # the displaced point as goal
                            jobs.append(mkjob(H, W, cross, conn, yax, xax, gp, sp, tag="coords:" + name, style=st))
    return jobs


def snap_jobs(shapes):
    """one crossable cell t (plus, in a variant, the cells farther away than t): the other end point
    given at c != t with snapping on - at every displacement including the far corner"""
    jobs = []
    for k, (H, W) in enumerate(shapes):
        # descending y / descending x / both, in turn
        yax, xax = unit_axis(H, desc=(k % 3 != 1)), unit_axis(W, desc=(k % 3 != 0))
        for ci in range(H * W):
            for ti in range(H * W):
                if ci == ti:
                    continue
                cr, cc, tr, tc = ci // W, ci % W, ti // W, ti % W
                d2 = (cr - tr) ** 2 + (cc - tc) ** 2
                only = [[int((r, c) == (tr, tc)) for c in range(W)] for r in range(H)]
                more = [[int((r - cr) ** 2 + (c - cc) ** 2 > d2 or (r, c) == (tr, tc)) for c in range(W)]
                        for r in range(H)]
                pc = (centre(yax, cr), centre(xax, cc))
                pt = (centre(yax, tr), centre(xax, tc))
                jobs.append(mkjob(H, W, only, 8, yax, xax, pc, pt, snapS=1, snapG=0, tag="snap_start", style=-1 - (ci + ti) % NP))
                jobs.append(mkjob(H, W, only, 4, yax, xax, pt, pc, snapS=0, snapG=1, tag="snap_goal", style=-1 - (ci * 3 + ti) % NP))
                if more != only:
                    far = max(((r, c) for r in range(H) for c in range(W) if more[r][c]),
                              key=lambda p: (p[0] - tr) ** 2 + (p[1] - tc) ** 2)
                    pf = (centre(yax, far[0]), centre(xax, far[1]))
                    jobs.append(mkjob(H, W, more, 8, yax, xax, pc, pf, snapS=1, snapG=1, tag="snap_more", style=(ci * 7 + ti) % (3 * NP)))
    return jobs


# ---- input variation: memory layout, dtype, dims, point types, `res` attr, repeated calls
LAYOUTS = ["C", "F", "T", "strided", "rev"]
DTYPES = ["int8", "uint8", "int16", "int32", "int64", "uint64", "float32", "float64"]
# per dtype: (barrier list, values placed on walls, values of crossable cells).  Every list also holds values
# that are NOT representable in the dtype (they must match nothing) next to representable ones, out of order;
# 16777217 / 16777216 differ only beyond float32 precision.
INT_PALETTES = {
    "int8": [([0], [0], [1, -1, 2, 127]),
             ([100, -7, 300, 2.5, -129], [-7, 100], [0, 1, 2, -1, 50, 127, -128, 44]),
             ([3, 1], [1, 3], [0, 2, 4, -3])],
    "uint8": [([0.0], [0], [1, 2, 255, 9]),
              ([200, 7, 300, -1, 2.5], [7, 200], [0, 1, 2, 3, 100, 255, 44]),
              ([9, 256, 4], [4, 9], [0, 1, 5, 8, 10])],
    "int16": [([-0.0], [0], [1, -1, 300]),
              ([30000, -7, 40000, 0.5], [-7, 30000], [0, 1, -1, 300, -300, 32767]),
              ([5, 1, 5], [1, 5], [0, 2, 3, 4])],
    "int32": [([0], [0], [1, 2, -7]),
              ([16777217, 7, -3, 2 ** 31, 1.5], [7, 16777217, -3], [16777216, 16777218, 0, 1, 8, -4]),
              ([2, 1], [1, 2], [0, 3, 4])],
    "int64": [([0, 0], [0], [1, 2 ** 40, -3]),
              ([2 ** 40 + 1, 16777217, -5, 0.25], [-5, 16777217, 2 ** 40 + 1], [2 ** 40, 16777216, 0, 1, 6, -6]),
              ([8, 3], [3, 8], [0, 1, 2, 4])],
    "uint64": [([0.0], [0], [1, 2, 2 ** 40]),
               ([16777217, 2 ** 40 + 1, -1, 7.5], [16777217, 2 ** 40 + 1], [2 ** 40, 16777216, 0, 1, 7, 8]),
               ([6, 2], [2, 6], [0, 1, 3, 5])],
}
FLOAT_EXTRA = ([0.1, 7, 2.5], [7, 2.5], [0.1, 1, 2, 0.2, 2.25])     # 0.1 is a wall in float64, matches nothing in float32
DIMS = [("y", "x"), ("lat", "lon"), ("x", "y"), ("row", "col"), ("y", "x")]


def variant_jobs(rng, pool, n, dtypes=None):
    """n jobs drawn from the other groups' jobs, each re-issued with another memory layout, dtype (values from a
    palette of that dtype), dims names, point type, optionally a `res` attribute that disagrees with the
    coordinates (1.5 x the spacing) and earlier calls on the same surface object"""
    out = []
    dtypes = dtypes or DTYPES
    for k in range(n):
        b = dict(rng.choice(pool))
        H, W, cross = b["H"], b["W"], b["_cross"]
        j = dict(b, events=False, tag="variants:" + b["tag"].split(":")[0])
        j["layout"] = LAYOUTS[k % len(LAYOUTS)]
        j["dtype"] = dt = dtypes[(k // len(LAYOUTS) + k) % len(dtypes)]
        if dt in INT_PALETTES or rng.random() < 0.3:
            barriers, placed, free = (rng.choice(INT_PALETTES[dt]) if dt in INT_PALETTES
                                      else rng.choice([FLOAT_EXTRA, ([-0.0], [0, -0.0], [1, 0.5, -3]), ([0], [0.0], [2, 4])]))
            ph = rng.randrange(7)
            j["vals"] = [[(free[(i * 3 + ph) % len(free)] if cross[i // W][i % W] else placed[(i * 5 + ph) % len(placed)])
                          for i in range(r * W, (r + 1) * W)] for r in range(H)]
            j["barriers"] = list(barriers)
        j["ydim"], j["xdim"] = DIMS[rng.randrange(len(DIMS))]
        yax, xax = dict(b["yax"]), dict(b["xax"])
        sp, gp = list(b["sp"]), list(b["gp"])
        if rng.random() < 0.2:
            # res = 1.5 x spacing on both axes (never puts a point midway, never outside); axes rescaled by 2
            # so that the numerator is an integer.  The scalar form needs equal cell sizes.
            yax = {"den": 2 * yax["den"], "o": 2 * yax["o"], "s": 2 * yax["s"], "res": 3 * abs(yax["s"])}
            xax = {"den": 2 * xax["den"], "o": 2 * xax["o"], "s": 2 * xax["s"], "res": 3 * abs(xax["s"])}
            sp, gp = [2 * sp[0], 2 * sp[1]], [2 * gp[0], 2 * gp[1]]
            same = Fraction(yax["res"], yax["den"]) == Fraction(xax["res"], xax["den"])
            j["resform"] = rng.choice(["tuple", "list", "ndarray"] + (["scalar"] if same else []))
        j["yax"], j["xax"], j["sp"], j["gp"] = yax, xax, sp, gp
        integral = all(p[0] % yax["den"] == 0 and p[1] % xax["den"] == 0 for p in (sp, gp))
        j["ptype"] = rng.choice(["tuple", "list", "ndarray", "np_f64", "np_f32"] + (["np_int", "int"] if integral else []))
        if rng.random() < 0.3:
            j["pre"] = [[gp, sp]] + ([[sp, sp]] if rng.random() < 0.5 else [])
        out.append(j)
    return out


# ----------------------------------------------------------------------------- judging
def strip(case):
    return {k: v for k, v in case.items() if k not in ("job", "raw", "tag", "error", "same_input")}


class Tally:
    def __init__(self):
        self.by_key = {}
        self.ok = 0
        self.by_tag = {}


def handle(ctx, tally, jobs, cases, kinds, verdicts, extra):
    for i, (job, case) in enumerate(zip(jobs, cases)):
        ctx.evaluations += 1
        case["job"] = job
        kind = kinds[i]
        tag = case.get("tag", "")
        t = tally.by_tag.setdefault(tag.split(":")[0], [0, 0])
        t[0] += 1
        if "error" in case:
            if case["error"].startswith("Timeout"):
                report(ctx, tally, "astar:call-does-not-return", "call_does_not_return", case, case["error"])
            else:
                report(ctx, tally, "astar:call-raised", "call_raised", case, case["error"])
            t[1] += 1
            continue
        cl = verdicts.get(i, "missing")
        dr = extra.get(i)
        if cl == "ok":
            tally.ok += 1
            # non-trivial: reachable pair whose shortest path is longer than the straight line
            best, cells = -1.0, []
            for r in range(case["H"]):
                for c in range(case["W"]):
                    v = case["raw"][r][c]
                    if v is not None:
                        cells.append((v, r, c))
            if len(cells) > 1:
                cells.sort()
                (_, r0, c0), (best, r1, c1) = cells[0], cells[-1]
                if best > math.hypot(r0 - r1, c0 - c1) + 1e-9:
                    ctx.nontrivial((case["H"], case["W"], case["conn"], json.dumps(case["cross"]), r0, c0, r1, c1))
        else:
            t[1] += 1
            report(ctx, tally, classify(case, cl), cl, case,
                   "%s %dx%d conn=%d start=%s goal=%s snap=%d%d named=%s/%s library_cells=%s searched=%s->%s"
                   % (tag, case["H"], case["W"], case["conn"],
                      pt_str(case, "sp"), pt_str(case, "gp"), case["snapS"], case["snapG"],
                      sorted(named_cells(case, "sp")), sorted(named_cells(case, "gp")),
                      case.get("pix"), case.get("cs"), case.get("cg")))
        if dr and dr.startswith("drift"):
            ctx.report_drift("step model vs code (%s): %s on %s start=%s goal=%s conn=%d"
                             % (kind, dr, case["cross"], case.get("cs"), case.get("cg"), case["conn"]))


def pt_str(case, which):
    return "(%s, %s)" % (Fraction(case[which][0], case["yax"]["den"]), Fraction(case[which][1], case["xax"]["den"]))


def report(ctx, tally, key, clause, case, what):
    n = tally.by_key.get(key, 0)
    tally.by_key[key] = n + 1
    if n < MAX_REPLAYS_PER_KEY:
        ctx.violation(key, clause, {k: v for k, v in case.items() if k != "events"}, what)
    elif key in ctx.known:
        ctx.known_hits[key] = ctx.known_hits.get(key, 0) + 1


def process(ctx, tally, groups, name, interp=False, chunk=40000, flush_at=120000, nproc=None):
    """groups = [(kind, jobs)]: run the jobs through the real code (one worker pool per flush: every worker
    process pays the import and the JIT compilation once), let TLC judge the observations"""
    pend = []

    def flush():
        jobs = [j for _, js in pend for j in js]
        kinds = [k for k, js in pend for _ in js]
        del pend[:]
        if not jobs:
            return
        # few worker processes / JVMs for small batches: every process pays import + JIT (~5 CPU-s) once
        np_ = nproc or (16 if len(jobs) > 100000 else (8 if len(jobs) > 30000 else 4))
        cases = run_real(ctx, jobs, interp, np_)
        keep = [i for i, c in enumerate(cases) if not c.get("skipped")]
        if len(keep) < len(jobs):
            ctx.note("%d jobs were not executed: calls kept hanging in the worker processes" % (len(jobs) - len(keep)))
            jobs, kinds, cases = [jobs[i] for i in keep], [kinds[i] for i in keep], [cases[i] for i in keep]
        for lo in range(0, len(jobs), chunk):
            part, pk, pj = cases[lo:lo + chunk], kinds[lo:lo + chunk], jobs[lo:lo + chunk]
            good = [i for i, c in enumerate(part) if "error" not in c]
            v = ctx.judge("AStar_Trace", [strip(part[i]) for i in good], name="%s_%d" % (name, ctx._n),
                          stateful=True, workers=4, parallel=max(1, min(4, len(good) // 8000)))
            verdicts = {good[k]: cl for k, cl in v.items()}
            extra = {good[k]: ctx.judge_extra.get(k) for k in v}
            ctx.judge_extra.clear()
            handle(ctx, tally, pj, part, pk, verdicts, extra)
        seen = set()
        for c, k in zip(cases, kinds):
            if k not in seen and "error" not in c:
                seen.add(k)
                ctx.sample({"kind": k, "tag": c.get("tag"), "cross": c["cross"], "conn": c["conn"],
                            "start": pt_str(c, "sp"), "goal": pt_str(c, "gp"), "path": c["raw"],
                            "pop_events": len(c["events"])}, limit=10)

    for kind, js in groups:
        pend.append((kind, js))
        if sum(len(x[1]) for x in pend) >= flush_at:
            flush()
    flush()


def run_real(ctx, jobs, interp, nproc=16, rounds=3):
    """all jobs through worker processes; jobs a process skipped because an earlier call of it never returned
    are run again in fresh processes (a few rounds)"""
    env = {"NUMBA_DISABLE_JIT": "1"} if interp else None
    cases = core.run_jobs("astar_worker", jobs, nproc=nproc, env=env)
    for _ in range(rounds - 1):
        todo = [i for i, c in enumerate(cases) if c.get("skipped")]
        if not todo:
            break
        again = core.run_jobs("astar_worker", [jobs[i] for i in todo], nproc=nproc, env=env)
        for i, c in zip(todo, again):
            cases[i] = c
    return cases


def surd_cases(lim=7):
    S = 10 ** 80

    def sgn(A, B, n1, n2):
        v = A * 10 ** 40 + (1 if B >= 0 else -1) * math.isqrt(2 * B * B * S) + math.isqrt(n1 * S) - math.isqrt(n2 * S)
        return 0 if abs(v) <= 4 else (1 if v > 0 else -1)
    out = []
    for A in range(-lim, lim + 1):
        for B in range(-lim, lim + 1):
            for n1, n2 in itertools.chain(itertools.product(range(14), repeat=2),
                                          itertools.product((16, 18, 20, 25, 29, 32), (17, 18, 26, 30, 32))):
                out.append({"A": A, "B": B, "n1": n1, "n2": n2, "s": sgn(A, B, n1, n2)})
    return out


def replay(ctx, rec):
    """re-run exactly the recorded case through the real code (compiled; also interpreted with step
    events when the grid is small enough for the step model) and the judge"""
    tally = Tally()
    job = rec["case"]["job"]
    process(ctx, tally, [("replay", [dict(job, events=False)])], "replay")
    if job["H"] * job["W"] <= 12:
        process(ctx, tally, [("replay-steps", [dict(job, events=True)])], "replay_steps", interp=True)
    ctx.extra["violations_by_key"] = tally.by_key
    ctx.sample({"replayed": rec.get("clause"), "key": rec.get("key"), "rejected_now": tally.by_key})


def run(ctx):
    ctx.rule = ("cases = (grid of crossable cells, connectivity, coordinate axes, start/goal points, snap flags); "
                "non-trivial when a path is returned whose cost exceeds the straight-line distance between its "
                "end cells (a detour was needed); distinct by (grid, connectivity, end cells)")
    ctx.assumptions = [
        "float bridge `surd`: every non-NaN output value must be a + b*sqrt2 with unique integers 0 <= a, b <= cells "
        "within 1e-9 (the output is float64)",
        "coordinates are exact rationals; the float coordinate handed to the library is the correctly rounded value; "
        "points exactly midway between two centres are not generated",
        "'nearest crossable cell' is measured in pixel space (the space in which steps cost 1 and sqrt2); snapping "
        "cases use square cells so that coordinate space gives the same answer",
        "exact ties between pop priorities that involve a sqrt2 part may fall either way in floating point: the "
        "model allows any of the tied cells (integer ties are resolved row-major first as in the code)",
    ]
    tally = Tally()
    rng = random.Random(ctx.seed * 7919 + 14)

    skip_m = os.environ.get("VERIF_C14_SKIP_M") == "1"      # development aid for mutation runs (M does not read /repo)
    if skip_m:
        ctx.note("M phase skipped (VERIF_C14_SKIP_M=1)")
        return run_code(ctx, tally, rng)
    # ---- M0: the exact order itself
    sc = surd_cases(ctx.pick(5, 7))
    v = ctx.judge("Surd_Check", sc, name="surd_order", parallel=1, count_traces=False)
    bad = [(sc[i], cl) for i, cl in v.items() if cl != "ok"]
    if bad:
        raise core.MachineryError("Surd.tla disagrees with 80-digit arithmetic: %s" % (bad[:3],))
    ctx.extra["surd_order_cases"] = len(sc)

    # ---- M1: coordinate -> cell and snapping algorithms
    axes = core.Raw("{" + ", ".join(
        "[den |-> %d, o |-> %s, s |-> %s, n |-> %d]" % (a["den"], core.tla(a["o"]), core.tla(a["s"]), n)
        for (a, n) in [(fine_axis(oy, sy), 5) for _, (oy, sy), _ in COORD_SYSTEMS] +
                      [(fine_axis(ox, sx), 4) for _, _, (ox, sx) in COORD_SYSTEMS]) + "}")
    sh, sw = ctx.pick((3, 3), (3, 4))
    ctx.model_check("PixelId_MC", dict(constants=dict(AXES=axes, PV="round", SV="infinit", SH=sh, SW=sw)),
                    "pixelid_round_infinit", workers=1)
    ctx.model_check("PixelId_MC", dict(constants=dict(AXES=axes, PV="trunc", SV="infinit", SH=2, SW=2)),
                    "neg_pixelid_trunc", workers=1, expect="violation")
    ctx.model_check("PixelId_MC", dict(constants=dict(AXES=axes, PV="round", SV="maxinit", SH=3, SW=3)),
                    "neg_snap_maxinit", workers=1, expect="violation")

    # ---- M2: the search, exhaustively
    grids = ctx.pick([(3, 3)], [(3, 3), (2, 4), (2, 5), (3, 4)])
    for (H, W) in grids:
        ctx.model_check("AStar", dict(spec="Spec", invariants=INV, constants=dict(
            H=H, W=W, CONNS={4, 8}, MUT="none")), "astar_%dx%d" % (H, W), workers=ctx.pick(6, 16),
            coverage=(H * W == 9 and ctx.tier == "thorough"))
    ctx.model_check("AStar", dict(spec="FairSpec", invariants=["TypeOK"], properties=["Termination"],
                                  constants=dict(H=2, W=3, CONNS={4, 8}, MUT="none")), "astar_2x3_termination",
                    workers=2)
    for mut, inv in TWINS:
        if mut == "hsquared" and ctx.tier == "quick":
            continue        # needs the 2x4 grid (20 CPU-s): thorough only
        # smallest grids on which TLC rejects the twin (hsquared survives every 2x3 layout)
        H, W = (2, 4) if mut == "hsquared" else (2, 3)
        ctx.model_check("AStar", dict(spec="Spec", invariants=inv, constants=dict(
            H=H, W=W, CONNS={8}, MUT=mut)), "neg_" + mut, workers=1, expect="violation")
    ctx.exhaustive = True
    run_code(ctx, tally, rng)


def run_code(ctx, tally, rng):
    # ---- R + T through the compiled public function
    # quick: a seeded tenth of the 3x3 space (thorough: all of it, and 2x4, 2x5)
    rgrids = ctx.pick([(3, 3)], [(3, 3), (2, 4), (2, 5)])
    k, of = ctx.pick((1, 10), (1, 1))
    groups = [("R", layout_jobs(H, W, (4, 8), tag="replay_layouts", desc=(H == 2), keep=k, of=of, seed=ctx.seed))
              for (H, W) in rgrids]
    # snapping on the 3x3 space (quick: a seeded sixteenth)
    k, of = ctx.pick((1, 16), (1, 1))
    groups.append(("R-snap", layout_jobs(3, 3, (8,), snap=1, tag="replay_snap", descx=True, keep=k, of=of, seed=ctx.seed)))
    # beyond the exhaustive scope
    sizes = [(4, 4), (4, 6), (5, 5), (6, 5), (5, 7), (7, 7), (6, 6), (3, 7)]
    # float32 surfaces: quick only in the interpreted group below (a second JIT signature costs 2.5 CPU-s per process)
    groups.append(("T-mazes", maze_jobs(rng, ctx.pick(400, 12000), sizes, f32=(ctx.tier == "thorough"))))
    cj = coord_jobs(4, 5, COORD_SYSTEMS)
    if ctx.tier == "thorough":
        cj += coord_jobs(4, 5, COORD_SYSTEMS, conn=4,
                         cross=[[1, 1, 1, 1, 1], [1, 0, 0, 1, 1], [1, 1, 0, 1, 1], [1, 1, 1, 1, 1]])
        cj += coord_jobs(6, 7, COORD_SYSTEMS[:6] + COORD_SYSTEMS[11:14], disps=(0, 3, -3, 4, -4))
    groups.append(("T-coords", cj))
    # long corridors: the shortest route is >= 2(H+W) steps (serpentine 7x7 under 4-connectivity, 9x9 / 11x6 under both)
    groups.append(("T-long", long_jobs(rng, ctx.pick([(7, 7), (9, 9), (11, 6), (11, 11)],
                                                     [(7, 7), (9, 9), (11, 6), (6, 11), (8, 8), (10, 10), (11, 11),
                                                      (7, 10), (9, 7)]), extra=ctx.pick(1, 3))))
    groups.append(("T-snap", snap_jobs(ctx.pick([(3, 3), (2, 5), (4, 5)],
                                                [(3, 3), (2, 5), (4, 5), (5, 5), (2, 7), (6, 4)]))))
    groups.append(("R", layout_jobs(2, 2, (4, 8), tag="replay_layouts", desc=True, descx=True)))
    process(ctx, tally, groups, "compiled")
    # input variation on a seeded sample of every group above (few processes: every (dtype, layout) pair is one
    # more JIT signature, ~1 CPU-s each per process)
    pool = [j for _, js in groups for j in js]
    # quick: compiled for two of the eight dtypes (rotating with the seed: an int, a float),
    # all eight interpreted (steps pool below)
    dts = ctx.pick([DTYPES[ctx.seed % 6], DTYPES[6 + ctx.seed % 2]], DTYPES)
    process(ctx, tally, [("T-variants", variant_jobs(rng, pool, ctx.pick(320, 8000), dts))], "variants",
            nproc=ctx.pick(1, 8))
    small = [j for j in pool if j["H"] * j["W"] <= 30]
    vint = variant_jobs(rng, small, ctx.pick(240, 2000))

    # ---- step level: every pop of the interpreted search against the model (quick: a seeded 1/48 of 3x3)
    k, of = ctx.pick((1, 48), (1, 1))
    groups = [("R-steps", layout_jobs(3, 3, (4, 8), events=True, tag="replay_steps", desc=True, descx=True, keep=k, of=of,
                                      seed=ctx.seed))]
    if ctx.tier == "thorough":
        groups.append(("R-steps", layout_jobs(2, 4, (4, 8), events=True, tag="replay_steps", desc=True)))
    groups.append(("T-steps", maze_jobs(rng, ctx.pick(60, 1500), [(3, 4), (4, 3), (2, 6)], events=True)))
    groups.append(("T-variants", vint))
    process(ctx, tally, groups, "steps", interp=True, flush_at=60000)

    ctx.extra["violations_by_key"] = tally.by_key
    ctx.extra["cases_by_group"] = {k: {"cases": v[0], "rejected": v[1]} for k, v in tally.by_tag.items()}
    for key, n in sorted(tally.by_key.items()):
        ctx.note("%d cases rejected with key %s (first %d saved as replay files)"
                 % (n, key, min(n, MAX_REPLAYS_PER_KEY)))


META = {
    "technique": "TLA+ state machine of the A* search (pop / relax / reconstruct) model-checked by TLC over every "
                 "layout x end-point pair x connectivity of small grids against a Bellman-Ford definition of the "
                 "shortest route with exact surd arithmetic; observations of the real a_star_search (outputs, and in "
                 "interpreted mode every pop with the full search state) judged by TLC against the same operators; "
                 "coordinate->cell and snapping decided with exact rationals",
    "level_text": "TLC explores AStar.tla on every crossable/non-crossable layout, every (start, goal) and both "
                  "connectivities of the 3x3 grid (thorough: also 2x4, 2x5, 3x4) with invariants ChainOK, CostOptimal, "
                  "AllNaNIffUnreachable, ClosedAreFinal, OpenSound, ParentOK and six rejected negative twins; the same "
                  "complete input space is run through the real a_star_search and AStar_Trace.tla decides the property "
                  "on each observed path image (chain, step lengths, crossability, minimal cost by Bellman-Ford, "
                  "all-NaN iff no route, named cells by nearest centre, snapping to a nearest crossable cell) and checks "
                  "each logged pop of the interpreted search against the model. Exhaustive on the small scope, seeded "
                  "sampling (mazes to 7x7, fractional/descending/offset coordinate systems, snapping at every "
                  "displacement) beyond it.",
    "level_note": "Trusted: TLC; Surd.tla's order (re-validated on 50 850 sign cases against 80-digit arithmetic each "
                  "run); the float bridge `surd` (float64 output -> unique a + b*sqrt2 within 1e-9); the worker's "
                  "computation of the crossable mask from values and barriers; interpreted mode "
                  "(NUMBA_DISABLE_JIT=1) running the same source for step traces (outputs always judged, compiled "
                  "mode for the bulk). Midway points and non-square cells under snapping are outside the checked domain.",
}
