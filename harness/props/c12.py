"""C12 - classifiers label every finite cell, in order, within [0, k-1].

M  Classify.tla: the hand-written binary search of _cpu_bin as a state machine (start, end, mid per loop
   iteration) over EVERY ascending bin list (duplicates allowed) of length 1..6 over 0..5 x EVERY value position
   (half-integers, NaN, +-inf): result = first bin with upper bound >= value, NaN above the last bin and for
   non-finite values, no negative-index wrap-around, termination (variant).  ClassifyJenks.tla: the Jenks dynamic
   programme and break extraction in exact arithmetic over every sorted sample of <= 7 values over 0..6, k <= 4:
   the partition realised by the breaks attains the minimum within-class SSD.  Negative twins.
R  the complete bin/value space through the compiled _cpu_bin (direct) and the public reclassify, and in
   interpreted mode with the (start, end, mid) triples of every loop test compared with the model; every small
   multiset x k through natural_breaks / quantile / equal_interval; binary on every value list.
T  seeded rasters (float32/float64/int, ties, NaN/inf, values not representable in float32, k = 2..7) through the
   data-driven classifiers; TLC decides the common invariants (non-finite -> NaN, finite -> integer class in
   [0, k-1], monotone) and class identity (exact cuts / percentile bands / minimum SSD).
"""
import itertools
import json
import random
import struct

from harness import core

NAN, PINF, NINF = -99, -97, -96
JVM_ENV = {"_JAVA_OPTIONS": "-Xmx2g -XX:ParallelGCThreads=2"}
BS_INV = ["TypeOK", "ResultIsFirstGE", "NonFiniteIsNaN", "AboveLastIsNaN", "FiniteInRangeGetsBin",
          "WindowHoldsAnswer", "LeftBelow", "RightAtLeast", "MidIsMiddle", "NoWrapAround", "NeverExhausted",
          "StepMakesProgress"]
JK_INV = ["TypeOK", "RealisedIsOptimal", "BreaksAscending", "EveryClassUsed", "RowsOptimal", "ExtractionInRange",
          "NoSplitNeeded"]


def mc_bs(ctx, name, maxlen, maxv, mut="none", expect="ok", inv=BS_INV, live=True):
    return ctx.model_check("Classify", dict(
        spec="Spec", invariants=inv, properties=["Terminates", "VariantDecreases"] if live else [],
        constants=dict(MAXLEN=maxlen, MAXV=maxv, MUT=mut)), name, expect=expect, env=JVM_ENV)


def mc_jk(ctx, name, nmax, vmax, kmax, mut="none", expect="ok", inv=JK_INV, live=False):
    return ctx.model_check("ClassifyJenks", dict(
        spec="Spec", invariants=inv, properties=["Terminates"] if live else [],
        constants=dict(NMAX=nmax, VMAX=vmax, KMAX=kmax, MUT=mut)), name, expect=expect, env={"_JAVA_OPTIONS": "-Xmx3g"})


# ------------------------------------------------------------------------------------------------ jobs
def bin_lists(maxlen, maxv):
    for n in range(1, maxlen + 1):
        for s in itertools.combinations_with_replacement(range(maxv + 1), n):
            yield list(s)


def bin_jobs(maxlen, maxv):
    vals2 = list(range(-1, 2 * maxv + 2)) + [NAN, PINF, NINF]
    jobs = []
    for q, b in enumerate(bin_lists(maxlen, maxv)):
        jobs.append({"kind": "bin", "bins": b, "vals2": vals2, "dtype": "float64" if q % 3 else "float32",
                     "bins_float": q % 2 == 1, "trace": True, "tag": "bins"})
        if q % 4 == 0:        # integer rasters: the integer positions only
            jobs.append({"kind": "bin", "bins": b, "vals2": list(range(-2, 2 * maxv + 3, 2)),
                         "dtype": "int32" if q % 8 else "int64", "bins_float": q % 3 == 1, "trace": True,
                         "tag": "bins_int_raster"})
    return jobs


def multisets(nmax, vmax):
    for n in range(2, nmax + 1):
        for s in itertools.combinations_with_replacement(range(vmax + 1), n):
            yield list(s)


def multiset_jobs(rng, nmax, vmax):
    jobs = []
    for s in multisets(nmax, vmax):
        vals = list(s)
        rng.shuffle(vals)
        for k in (2, 3, 4):
            for func in ("natural_breaks", "quantile", "equal_interval"):
                if func == "equal_interval" and len(set(vals)) == 1:
                    continue            # zero width: np.arange raises - outside the domain
                jobs.append({"kind": "classes", "func": func, "k": k, "vals": vals, "shape": [1, len(vals)],
                             "dtype": "float64", "off": 0, "unit": 1, "tag": "multiset"})
    return jobs


def binary_jobs():
    base = [0, 1, 2, 3, NAN, PINF, NINF, 2, 0, 3, 1, NAN]
    jobs = []
    for r in range(1, 5):
        for lst in itertools.permutations([0, 1, 2, 3], r):
            for dtype in ("float64", "float32"):
                jobs.append({"kind": "binary", "vals": base, "list": list(lst), "shape": [3, 4], "dtype": dtype,
                             "tag": "binary"})
    ibase = [0, 1, 2, 3, 4, 5, 2, 0, 3, 1, 5, 4]
    for lst in ([0], [5, 1], [2, 3, 4], [7], [1, 1]):
        for dtype in ("int64", "int32"):
            jobs.append({"kind": "binary", "vals": ibase, "list": lst, "shape": [4, 3], "dtype": dtype, "tag": "binary_int"})
    return jobs


LAYOUTS = ["C", "F", "T", "view", "rev", "Fcols"]
DTYPES = ["int8", "uint8", "int16", "uint16", "int32", "uint32", "int64", "uint64", "float32", "float64"]
IMAX = {"int8": 127, "uint8": 255, "int16": 32767, "uint16": 65535, "int32": 2 ** 31 - 1, "uint32": 2 ** 32 - 1,
        "int64": 2 ** 63 - 1, "uint64": 2 ** 64 - 1}


def combos(rng):
    """endless seeded walk through the dtype x layout matrix, every combination equally often"""
    while True:
        cs = [(d, lo) for d in DTYPES for lo in LAYOUTS]
        rng.shuffle(cs)
        for c in cs:
            yield c


def grid_shape(n, rng):
    """a 2-D shape with both extents > 1 when n allows it (layouts only matter then)"""
    opts = [(h, n // h) for h in range(2, n) if n % h == 0 and n // h > 1]
    return list(rng.choice(opts)) if opts else [1, n]


def matrix_jobs(rng, n_bin, n_cls):
    """Input-variation matrix: every classifier x raster dtype x memory layout on a seeded sample of every family.
    The expected classes do not depend on dtype or layout - the definitions work on values."""
    jobs = []
    cs = combos(rng)
    allbins = list(bin_lists(6, 5))
    for _ in range(n_bin):                                   # reclassify / _cpu_bin
        dtype, layout = next(cs)
        b = rng.choice(allbins)
        isf = dtype.startswith("float")
        pos = list(range(-1, 13)) + [NAN, PINF] if isf else list(range(0 if dtype[0] == "u" else -2, 13, 2)) * 2
        while len(pos) % 4:
            pos.append(pos[0])
        rng.shuffle(pos)
        jobs.append({"kind": "bin", "bins": b, "vals2": pos, "dtype": dtype, "layout": layout,
                     "shape": [4, len(pos) // 4], "bins_float": rng.random() < 0.5, "trace": False,
                     "tag": "matrix_bin_%s_%s" % (dtype, layout)})
    for q in range(n_cls):                                   # binary + the three data-driven classifiers
        dtype, layout = next(cs)
        isf = dtype.startswith("float")
        H, W = rng.choice([(2, 4), (3, 3), (2, 5), (4, 2), (3, 4)])
        hi = rng.choice([3, 6, 12])
        vals = [rng.randrange(0, hi + 1) for _ in range(H * W)]
        if isf:
            for i in range(H * W):
                if rng.random() < 0.1:
                    vals[i] = rng.choice([NAN, PINF, NINF])
        fin = [v for v in vals if v >= 0]
        while len(fin) > 10:                                  # natural_breaks: <= 10 finite values (32-bit SSD)
            H, W = 2, 5
            vals = vals[:10]
            fin = [v for v in vals if v >= 0]
        if len(set(fin)) < 2:
            vals[0], vals[1] = 0, hi
        off, unit = (0, 1)
        if dtype in ("int8", "int16", "int32", "int64") and rng.random() < 0.5:
            off, unit = -5, 1
        elif not isf and rng.random() < 0.3:
            off, unit = 3, 2
        base = {"shape": [H, W], "dtype": dtype, "layout": layout, "off": off, "unit": unit, "vals": vals}
        for func in ("natural_breaks", "quantile", "equal_interval"):
            jobs.append(dict(base, kind="classes", func=func, k=rng.choice([2, 3, 4, 5]),
                             tag="matrix_%s_%s_%s" % (func, dtype, layout)))
        pool = sorted(set(v for v in vals if v >= 0))
        jobs.append(dict(base, kind="binary", list=rng.sample(pool, min(len(pool), rng.choice([1, 2, 3]))),
                         tag="matrix_binary_%s_%s" % (dtype, layout)))
    return jobs


def low_neginf_jobs(rng, every):
    """Arrays - and single Dask blocks - that hold a -inf cell, NO NaN, and whose finite cells all lie in the first
    class: the -inf cell must still come out NaN.  reclassify (NumPy and one-row Dask blocks) with all values <=
    bins[0]; quantile / natural_breaks on a constant raster; equal_interval / reclassify on Dask with chunks (1, W)
    where the first row holds the lowest values and the -inf."""
    jobs = []
    for q, b in enumerate(bin_lists(6, 5)):
        if q % every:
            continue
        b0 = 2 * b[0]
        low = [v for v in (b0, b0 - 1, b0 - 2, b0 - 3) if v >= -1] or [b0]
        vals2 = [low[i % len(low)] for i in range(7)] + [NINF]
        rng.shuffle(vals2)
        dask_too = (q // every) % 6 == 0                  # Dask compute is ~20 ms per call: a sixth of the lists
        for shape, chunks in (([1, 8], None), ([2, 4], None), ([4, 2], [1, 2])):
            if chunks and not dask_too:
                continue
            jobs.append({"kind": "bin", "bins": b, "vals2": vals2, "shape": shape, "chunks": chunks,
                         "dtype": rng.choice(["float64", "float32"]), "layout": rng.choice(["C", "F"]) if not chunks else "C",
                         "bins_float": rng.random() < 0.5, "trace": False, "tag": "bins_all_low_with_neginf"})
        # Dask, one block per row: the first row lies in the first bin and holds the -inf, later rows do not
        if not dask_too:
            continue
        hi = [2 * x for x in b] + [2 * b[-1] + 1]
        row2 = [hi[i % len(hi)] for i in range(4)]
        jobs.append({"kind": "bin", "bins": b, "vals2": [low[0], NINF, low[-1], low[0]] + row2, "shape": [2, 4],
                     "chunks": [1, 4], "dtype": "float64", "trace": False, "tag": "bins_dask_rows_low_with_neginf"})
    for c in range(0, 4):
        for k in (2, 3):
            for func in ("quantile", "natural_breaks"):          # constant raster + -inf (equal_interval: zero width)
                vals = [c, c, NINF, c, c, c]
                jobs.append({"kind": "classes", "func": func, "k": k, "vals": vals, "shape": [2, 3], "dtype": "float64",
                             "layout": rng.choice(["C", "F"]), "off": 0, "unit": 1, "tag": "constant_with_neginf"})
    for W in (4, 6):
        for k in (3, 4):
            vals = list(range(W * W))
            vals[rng.randrange(1, W)] = NINF                     # in the first row = the lowest values
            jobs.append({"kind": "classes", "func": "equal_interval", "k": k, "vals": vals, "shape": [W, W],
                         "dtype": "float64", "chunks": [1, W], "off": 0, "unit": 1, "tag": "dask_rows_equal_interval_neginf"})
    return jobs


def special_jobs(rng, reps):
    """Values at the edges of the raster dtype."""
    jobs = []
    cs = combos(rng)
    # ---- binary: listed values that are NOT representable in the raster dtype, next to cells holding exactly what
    #      a cast of them would produce.  Codes >= 1000 are listed values equal to no cell.
    unrep = [
        ("int32", [1, -1, 2, -2, 0, 1, -1, 3], [1.5, -1.5, 2.9], [1000, 1001, 1002]),
        ("int8", [44, 127, -128, 0, 1, -1, 44, 100], [300, 128, -129, 1.5], [1000, 1001, 1002, 1003]),
        ("uint8", [44, 255, 0, 1, 254, 44, 2, 3], [300, -1, 256, -256, 0.5], [1000, 1001, 1002, 1003, 1004]),
        ("uint16", [65535, 0, 1, 464, 65534, 2, 3, 4], [-1, 65536, 66000, 1.5], [1000, 1001, 1002, 1003]),
        ("uint32", [4294967295, 0, 1, 2, 3, 4, 5, 6], [-1, 4294967296, 2.5], [1000, 1001, 1002]),
        ("uint64", [0, 1, 2, 3, 2 ** 53, 5, 6, 7], [-1, -2, 1.5], [1000, 1001, 1002]),
        ("int64", [2 ** 53, 2 ** 53 + 1, 2 ** 53 + 2, -2 ** 53 - 1, 0, 1, 2 ** 62, 2 ** 62 + 1], [1.5], [1000]),
        ("float32", [16777216.0, 16777218.0, 0.5, 1.0, 0.0, 2.0, 16777216.0, 3.0], [16777217, 0.1, 1e-46],
         [1000, 1001, 1002]),
        ("float64", [0.1, 0.3, 1.0, 2.0, 0.0, 3.0, 4.0, 5.0], [0.1 + 0.2, 1 + 1e-16 + 3e-16], [1000, 1001]),
    ]
    for dtype, cells, extra_real, extra_codes in unrep:
        for _ in range(reps):
            _, layout = next(cs)
            table = sorted(set(cells))
            vals = [table.index(v) for v in cells]
            k = rng.randrange(0, 3)
            listed = rng.sample(range(len(table)), k)
            lst_real = [table[c] for c in listed] + list(extra_real)
            if any(isinstance(v, float) for v in lst_real) and any(isinstance(v, int) and abs(v) > 2 ** 53 for v in lst_real):
                lst_real, listed = list(extra_real), []       # a python list mixing floats and huge ints loses the ints
            order = list(range(len(lst_real)))
            rng.shuffle(order)
            codes = listed + list(extra_codes)
            jobs.append({"kind": "binary", "vals": vals, "table": table, "shape": [2, 4], "dtype": dtype,
                         "layout": layout, "list": [codes[i] for i in order], "list_real": [lst_real[i] for i in order],
                         "tag": "binary_unrepresentable_%s" % dtype})
    # exact 64-bit integers beyond 2^53 (equality only: binary)
    for dtype, cells in (("int64", [2 ** 53, 2 ** 53 + 1, 2 ** 53 + 2, 2 ** 62, 2 ** 62 + 1, -2 ** 62 - 1, 0, 7]),
                         ("uint64", [2 ** 64 - 1, 2 ** 64 - 2, 2 ** 63, 2 ** 63 + 1, 0, 1, 2 ** 53 + 1, 2 ** 53])):
        for _ in range(reps):
            _, layout = next(cs)
            table = sorted(set(cells))
            vals = [table.index(v) for v in cells]
            # uint64: only values >= 2^63 are listed, so that numpy types the list uint64 (a list mixing them with
            # small ints becomes float64, and numba compares int64 with uint64 in float64: outside exactness)
            cand = [c for c in range(len(table)) if dtype == "int64" or table[c] >= 2 ** 63]
            listed = rng.sample(cand, rng.choice([1, 2, 3]))
            jobs.append({"kind": "binary", "vals": vals, "table": table, "shape": [4, 2], "dtype": dtype,
                         "layout": layout, "list": listed, "tag": "binary_64bit_%s" % dtype})
    # ---- reclassify: fractional bins on integer rasters (real bin = b/2, odd b; real value = v2/4)
    allbins = [b for b in bin_lists(5, 7) if any(x % 2 for x in b)]
    for dtype in ("int8", "uint8", "int16", "uint16", "int32", "uint32", "int64", "uint64"):
        for _ in range(reps):
            _, layout = next(cs)
            b = rng.choice(allbins)
            pos = [v for v in range(-4 if dtype[0] == "i" else 0, 20, 4)] * 2
            while len(pos) % 4:
                pos.append(pos[0])
            rng.shuffle(pos)
            jobs.append({"kind": "bin", "bins": b, "vals2": pos, "s": 0.5, "dtype": dtype, "layout": layout,
                         "shape": [4, len(pos) // 4], "trace": False, "tag": "fractional_bins_%s" % dtype})
    # ---- data-driven classifiers on wide integer rasters: 0 / dtype min .. dtype max, values on both sides of the
    #      median; and integers beyond 2^24 (up to 2^53: what float64 break values can hold exactly)
    wide = [("uint8", 0, 51, 5), ("uint16", 0, 13107, 5), ("uint32", 0, 858993459, 5), ("uint64", 0, 2 ** 50, 8),
            ("int8", -128, 51, 5), ("int16", -32768, 13107, 5), ("int32", -2 ** 31, 858993459, 5),
            ("int64", -2 ** 52, 2 ** 50, 8), ("int64", 2 ** 24 + 1, 1, 12), ("int64", 2 ** 40 + 1, 3, 12),
            ("uint32", 2 ** 24 + 1, 1, 12), ("float64", float(2 ** 24 + 1), 1.0, 12), ("float64", float(2 ** 40), 0.5, 12)]
    for dtype, off, unit, hi in wide:
        for _ in range(reps):
            _, layout = next(cs)
            H, W = rng.choice([(2, 4), (3, 3), (2, 5)])
            vals = [rng.randrange(0, hi + 1) for _ in range(H * W)]
            vals[rng.randrange(H * W)] = 0
            vals[rng.randrange(1, H * W)] = hi
            if vals[0] == hi and len(set(vals)) < 2:
                vals[0] = 0
            for func in ("natural_breaks", "quantile", "equal_interval"):
                jobs.append({"kind": "classes", "func": func, "k": rng.choice([2, 3, 4]), "vals": vals,
                             "shape": [H, W], "dtype": dtype, "layout": layout, "off": off, "unit": unit,
                             "tag": "wide_%s_%s" % (func, dtype)})
    # always (quick too): half the cells at the dtype's lowest value, half at its highest - a percentile that is
    # interpolated between the two in the raster's own dtype overflows (found by the thorough tier: fix 8420f1a)
    for dtype, off, unit, hi in wide[:8]:
        for k, vals in ((2, [0, 0, 0, 0, hi, hi, hi, hi]), (4, [0, hi, 0, hi, 1, hi - 1, 0, hi])):
            _, layout = next(cs)
            for func in ("quantile", "equal_interval", "natural_breaks"):
                jobs.append({"kind": "classes", "func": func, "k": k, "vals": vals, "shape": [2, 4], "dtype": dtype,
                             "layout": layout, "off": off, "unit": unit, "tag": "wide_%s_%s" % (func, dtype)})
    return jobs


UNREP = [(0.0, 0.1), (16777216.0, 1.0), (0.3, 0.7), (1.0e9, 3.0), (-0.05, 0.01)]


def random_jobs(rng, n):
    jobs = []
    for _ in range(n):
        func = rng.choice(["natural_breaks", "natural_breaks", "quantile", "equal_interval", "binary"])
        if func == "natural_breaks":
            H, W = rng.choice([(2, 3), (3, 3), (2, 5), (3, 4), (1, 8), (4, 3)])
        else:
            H, W = rng.choice([(3, 3), (3, 4), (4, 4), (2, 7), (5, 4), (5, 6), (1, 9)])
        dtype = rng.choice(["float64", "float64", "float32", "int32", "int64"])
        isf = dtype.startswith("float")
        hi = rng.choice([3, 6, 12, 20])
        cells = H * W
        vals = [rng.randrange(0, hi + 1) for _ in range(cells)]
        if rng.random() < 0.3:                      # heavy ties
            pool = rng.sample(range(hi + 1), min(hi + 1, rng.choice([2, 3, 4])))
            vals = [rng.choice(pool) for _ in range(cells)]
        if isf:
            for i in range(cells):
                if rng.random() < 0.12:
                    vals[i] = rng.choice([NAN, NAN, PINF, NINF])
        fin = [v for v in vals if v >= 0]
        if func == "natural_breaks":
            # keep the exact SSD arithmetic inside 32 bits: <= 10 finite values
            while len(fin) > 10:
                i = rng.randrange(cells)
                if vals[i] >= 0 and isf:
                    vals[i] = NAN
                    fin = [v for v in vals if v >= 0]
                elif not isf:
                    break
            if len(fin) > 10:
                H, W, cells = 2, 5, 10
                vals = vals[:10]
                fin = [v for v in vals if v >= 0]
        if len(fin) < 2 or (func == "equal_interval" and len(set(fin)) < 2):
            continue
        tag = "plain"
        off, unit = 0, 1
        if isf:
            r = rng.random()
            if dtype == "float64" and r < 0.4:
                off, unit = rng.choice(UNREP)
                tag = "unrep"                          # values not representable in float32
            elif r < 0.7:
                off, unit = rng.choice([(-3.5, 0.25), (100.0, 0.5), (-8.0, 2.0)])
                tag = "dyadic"
        else:
            off, unit = rng.choice([(0, 1), (-7, 1), (100, 3)])
        j = {"shape": [H, W], "dtype": dtype, "off": off, "unit": unit, "vals": vals, "tag": "random_" + tag}
        if func == "binary":
            pool = sorted(set(fin))
            lst = rng.sample(pool, min(len(pool), rng.choice([1, 2, 3])))
            if rng.random() < 0.3:
                lst.append(hi + 5)                 # a listed value that does not occur
            j.update({"kind": "binary", "list": lst})
        else:
            j.update({"kind": "classes", "func": func, "k": rng.choice([2, 3, 4, 5, 6, 7])})
        jobs.append(j)
    return jobs


def strip(case):
    return {k: v for k, v in case.items() if k not in ("job", "tag", "error", "ident")}


def key_of(case, clause):
    j = case["job"]
    if case["kind"] == "bin":
        return "reclassify:" + clause
    if case["kind"] == "binary":
        lr = j.get("list_real")
        table = j.get("table")
        if (clause == "binary_is_not_membership_in_values" and lr and table and j.get("dtype") in ("int64", "uint64")
                and any(isinstance(v, float) for v in lr)):
            # the user's list mixes floats and integers, numpy makes it float64, and the 64-bit cell is compared with
            # it through float64: a cell above 2^53 that ROUNDS to a listed value is flagged although it is not listed.
            # Specific key (known finding) only when every wrongly flagged cell is of exactly that kind.
            listed = set(j.get("list", []))
            wrong = [c for c, o in zip(case["vals"], case["out"]) if (o == 1) != (c in listed)]
            if wrong and all(case["out"][case["vals"].index(c)] == 1 and abs(table[c]) > 2 ** 53
                             and any(float(table[c]) == float(v) for v in lr) for c in wrong):
                return "binary:64bit-cell-above-2^53-compared-through-float64"
        return "binary:" + clause
    func = case["func"]
    if func == "natural_breaks":
        off, unit = j.get("off", 0), j.get("unit", 1)
        fin = [v for v in case["vals"] if v not in (NAN, PINF, NINF)]
        f32max = struct.unpack("f", struct.pack("f", off + max(fin) * unit))[0]
        nan_cells = [v for v, o in zip(case["vals"], case["out"]) if v not in (NAN, PINF, NINF) and o == NAN]
        if clause == "finite_cell_is_nan" and nan_cells and all(off + v * unit > f32max for v in nan_cells):
            # breaks are held in float32: the last break is float32(max) < max, so the raster maximum (and every
            # other value above float32(max)) lies above the last break and becomes NaN
            return "natural_breaks:max-value-nan"
        if j.get("tag", "").endswith("unrep"):
            # an inner break rounded to float32 falls below the value it was taken from
            return "natural_breaks:float32-breaks:" + clause
    return "%s:%s" % (func, clause)


class Tally:
    def __init__(self, ctx, per_key=3):
        self.ctx, self.per_key, self.by_key, self.drifts, self.ties = ctx, per_key, {}, 0, 0

    def viol(self, key, clause, case, what):
        n = self.by_key.get(key, 0)
        self.by_key[key] = n + 1
        if n < self.per_key:
            self.ctx.violation(key, clause, {k: v for k, v in case.items() if k != "trace"}, what)

    def finish(self):
        self.ctx.extra["violating_cases_by_key"] = dict(self.by_key)
        self.ctx.extra["drift_cases"] = self.drifts
        for k, n in sorted(self.by_key.items()):
            self.ctx.note("%d cases violate with key %s (first %d saved for replay)" % (n, k, min(n, self.per_key)))


def describe(case):
    j = case["job"]
    if case["kind"] == "bin":
        return "%s bins=%s s=%s dtype=%s layout=%s vals2=%s idx=%s recl=%s" % (
            case.get("tag"), case["bins"], j.get("s", 1), j.get("dtype"), j.get("layout"), case.get("vals2"),
            case.get("idx"), case.get("recl"))
    return "%s %s k=%s dtype=%s layout=%s off=%s unit=%s vals=%s list_real=%s out=%s" % (
        case.get("tag"), case.get("func", "binary"), case.get("k", case.get("list")), j.get("dtype"), j.get("layout"),
        j.get("off"), j.get("unit"), case["vals"], j.get("list_real"), case.get("out"))


def judge(ctx, cases, name, tally, parallel=4):
    good = [(i, c) for i, c in enumerate(cases) if "error" not in c]
    for c in cases:
        ctx.evaluations += 1
        if "error" in c:
            tally.viol("%s:call-raised" % c["job"].get("func", c["kind"]), "call_raised", c, "%s %s" % (c["tag"], c["error"]))
    v = ctx.judge("Classify_Judge", [strip(c) for _, c in good], name=name, parallel=parallel, env=JVM_ENV)
    extra = dict(ctx.judge_extra)
    ctx.judge_extra.clear()
    for kk, (i, case) in enumerate(good):
        cl = v.get(kk, "missing")
        ex = extra.get(kk) or ""
        if ex.startswith("b") and ex[1:].isdigit():
            ctx.borderline += int(ex[1:])
        if cl != "ok":
            tally.viol(key_of(case, cl), cl, case, describe(case))
        if ex.startswith("drift"):
            tally.drifts += 1
            if tally.drifts <= 5:
                ctx.report_drift("binary search model vs _cpu_bin: %s on bins=%s trace=%s"
                                 % (ex, case.get("bins"), case.get("trace")))
    return v


def setup(ctx):
    ctx.rule = ("bin cases = (bin list, value position); non-trivial when the list has >= 3 bins and the value lies "
                "strictly inside the bin range; data-driven cases counted by (function, k, raster)")
    ctx.assumptions = [
        "raster values are increasing affine images (off + code*unit) of small integer codes; equal_interval, quantile "
        "and natural_breaks are invariant under such maps, so TLC decides class identity on the codes in exact "
        "integer/rational arithmetic",
        "a cell whose value coincides exactly with a class break (equal_interval inner cut, percentile at an integer "
        "virtual index) is borderline for class identity only: both neighbouring classes admitted, counted in "
        "borderline_skipped; range / NaN / monotonicity are always asserted",
        "natural_breaks is run with the default num_sample (> raster size): the sample is the whole raster; rasters "
        "keep <= 10 finite values so that the exact SSD arithmetic stays inside TLC's 32-bit integers",
        "equal_interval on a constant raster raises (zero width) - outside the domain; new_values of reclassify are "
        "small integers",
    ]
    return Tally(ctx)


def replay(ctx, rec):
    """re-run exactly the recorded case through the real classifier and the judge"""
    tally = setup(ctx)
    cases = core.run_jobs("classify_worker", [rec["case"]["job"]], nproc=1)
    judge(ctx, cases, "replay", tally, parallel=1)
    ctx.sample({"replayed": rec.get("clause"), "case": {k: v for k, v in cases[0].items() if k not in ("job", "trace")}})
    tally.finish()


def run(ctx):
    tally = setup(ctx)
    thorough = ctx.tier == "thorough"
    rng = random.Random(ctx.seed * 7919 + 12)

    # ------------------------------------------------------------------ M
    mc_bs(ctx, "binsearch_len1to6_over0to5", 6, 5)
    mc_bs(ctx, "neg_first_strict", 4, 3, mut="first_strict", expect="violation", inv=["NoWrapAround"], live=False)
    mc_bs(ctx, "neg_break_ge", 5, 2, mut="break_ge", expect="violation", inv=["ResultIsFirstGE"], live=False)
    mc_bs(ctx, "neg_start_mid", 4, 2, mut="start_mid", expect="violation", inv=["StepMakesProgress"], live=False)
    mc_bs(ctx, "neg_last_strict", 3, 2, mut="last_strict", expect="violation", inv=["ResultIsFirstGE"], live=False)
    if thorough:
        mc_bs(ctx, "binsearch_len1to8_over0to3", 8, 3)
        mc_jk(ctx, "jenks_n7_v6_k4", 7, 6, 4)
        mc_jk(ctx, "jenks_n5_v4_k4_live", 5, 4, 4, live=True)
    else:
        mc_jk(ctx, "jenks_n6_v4_k4", 6, 4, 4)
        mc_jk(ctx, "jenks_n4_v4_k3_live", 4, 4, 3, live=True)
    mc_jk(ctx, "neg_variance_no_mean", 5, 4, 3, mut="variance_no_mean", expect="violation", inv=["RowsOptimal"])
    mc_jk(ctx, "neg_elt_off_by_one", 5, 4, 3, mut="elt_off_by_one", expect="violation", inv=["RealisedIsOptimal"])
    ctx.exhaustive = True
    # unbounded bin VALUES: inductive invariant of the same search discharged by Apalache (spec/apalache/ClassifyInd.tla),
    # and TLC's cross-check that its typed step equals ClassifyOps!BSStep
    from harness.props import c12_apalache
    c12_apalache.run_apalache(ctx, [2, 8] if not thorough else [1, 2, 3, 5, 8, 16, 32])

    # ------------------------------------------------------------------ observe: one fan-out for all compiled jobs
    # (every worker process pays the import + JIT cost once), a second one in interpreted mode for the step traces
    jb = bin_jobs(6, 5)
    jbin = binary_jobs()
    nmax, vmax = (7, 6) if thorough else (6, 4)
    jms = multiset_jobs(rng, nmax, vmax)
    jrnd = random_jobs(rng, ctx.pick(1200, 12000))
    jrnd += matrix_jobs(rng, ctx.pick(120, 1200), ctx.pick(120, 1200)) + special_jobs(rng, ctx.pick(2, 20))
    jrnd += low_neginf_jobs(rng, ctx.pick(6, 1))
    # each worker process pays ~5 CPU-s import + JIT: few processes in the quick tier
    allc = core.run_jobs("classify_worker", jb + jbin + jms + jrnd, nproc=ctx.pick(3, 16))
    compiled = allc[:len(jb)]
    cbin = allc[len(jb):len(jb) + len(jbin)]
    cms = allc[len(jb) + len(jbin):len(jb) + len(jbin) + len(jms)]
    crnd = allc[len(jb) + len(jbin) + len(jms):]
    interp = core.run_jobs("classify_worker", jb, nproc=ctx.pick(2, 8), env={"NUMBA_DISABLE_JIT": "1"})

    # ------------------------------------------------------------------ R: the complete bin / value space
    mism = 0
    for c, t in zip(compiled, interp):
        if "error" in c:
            continue
        if "error" in t or t.get("idx") != c.get("idx"):
            mism += 1
            c["trace"] = [[] for _ in c["vals2"]]       # step evidence discarded, verdict rests on compiled output
        else:
            c["trace"] = t["trace"]
        b = c["bins"]
        if len(b) >= 3:
            for v2 in c["vals2"]:
                if v2 not in (NAN, PINF, NINF) and 2 * b[0] < v2 < 2 * b[-1]:
                    ctx.nontrivial(("bin", tuple(b), v2))
    if mism:
        ctx.report_drift("interpreted != compiled _cpu_bin on %d bin lists (step evidence discarded)" % mism)
    ctx.note("R: %d bin lists x %d value positions through _cpu_bin (compiled + interpreted trace) and reclassify"
             % (len(jb), len(jb[0]["vals2"])))
    judge(ctx, compiled, "replay_bins", tally, parallel=2)
    c = compiled[len(compiled) // 2]
    ctx.sample({"kind": "bin", "bins": c["bins"], "vals2": c["vals2"], "idx": c.get("idx"), "trace": c.get("trace")})

    judge(ctx, cbin, "replay_binary", tally, parallel=1)
    ctx.sample({"kind": "binary", "vals": cbin[0]["job"]["vals"], "list": cbin[0]["job"]["list"], "out": cbin[0].get("out")})

    ctx.note("R: %d calls: every multiset of 2..%d values over 0..%d x k=2..4 x 3 classifiers" % (len(jms), nmax, vmax))
    judge(ctx, cms, "replay_multisets", tally, parallel=ctx.pick(3, 6))
    for c in cms:
        if "error" not in c and len(set(c["vals"])) >= 3:
            ctx.nontrivial((c["func"], c["k"], tuple(sorted(c["vals"]))))
    c = cms[len(cms) // 2]
    ctx.sample({"kind": "multiset", "func": c.get("func"), "k": c.get("k"), "vals": c.get("vals"), "out": c.get("out")})

    # ------------------------------------------------------------------ T: seeded rasters
    judge(ctx, [c for c in crnd if c["kind"] == "classes"], "random_classes", tally, parallel=ctx.pick(2, 8))
    judge(ctx, [c for c in crnd if c["kind"] == "binary"], "random_binary", tally, parallel=1)
    judge(ctx, [c for c in crnd if c["kind"] == "bin"], "matrix_bins", tally, parallel=1)
    for c in crnd:
        if "error" not in c and c["kind"] == "classes":
            ctx.nontrivial((c["func"], c["k"], tuple(c["vals"]), c["job"]["dtype"], c["job"].get("layout"),
                            c["job"].get("off"), c["job"].get("unit")))
    for c in [c for c in crnd if c["kind"] == "classes"][:2]:
        ctx.sample({"kind": "random", "func": c.get("func"), "k": c.get("k"), "dtype": c["job"]["dtype"],
                    "off": c["job"]["off"], "unit": c["job"]["unit"], "vals": c.get("vals"), "out": c.get("out")})
    tally.finish()


META = {
    "technique": "TLA+ state machines of _cpu_bin's binary search and of the Jenks dynamic programme model-checked by "
                 "TLC over the complete small input spaces; the same spaces replayed through the real code (incl. "
                 "interpreted-mode step traces of the search); seeded rasters judged by TLC on exact integer codes",
    "level_text": "TLC explores every ascending bin list (duplicates allowed) of length 1..6 over 0..5 with every value "
                  "position on Classify.tla (result = first bin >= value, NaN rules, loop invariants, no index "
                  "wrap-around, termination) and every sorted sample of <= 7 values, k <= 4 on ClassifyJenks.tla (the "
                  "realised partition attains the minimum SSD; DP rows optimal); negative twins are rejected.  The same "
                  "bin/value space is run through the compiled _cpu_bin, the public reclassify and, in interpreted "
                  "mode, with every (start,end,mid) compared with the model; every small multiset and seeded rasters "
                  "(float32/float64/int, NaN/inf, ties, float32-unrepresentable values) are run through binary, "
                  "equal_interval, quantile, natural_breaks and decided by Classify_Judge.tla.",
    "level_note": "Trusted: TLC; the affine integer-code encoding of raster values; sys.settrace line probes in "
                  "interpreted mode (NUMBA_DISABLE_JIT=1, cross-checked against compiled output); borderline rule for "
                  "values coinciding with a break; natural_breaks only with the whole raster as sample (<= 10 finite "
                  "values in seeded cases).",
}
