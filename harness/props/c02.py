"""C02 - zonal statistics summarise exactly the valid cells of each zone.

M  ZonalStats.tla: every raster of the small scopes is an initial state; the sort / stride / slice
   bookkeeping of _stats_numpy runs as a state machine; SliceIsZone, TableOK, RasterOK ... are invariants.
   The positive model is the code of today (variant {"dropneginf"}: -inf zone cells dropped from
   sorted_indices, fix 7d7d291) on zone alphabets WITH -inf.  The pre-fix variant {} is kept as a negative
   twin (TLC must refute SliceIsZone as soon as a zone cell is -inf), next to five other twins.
R  the same complete enumerations through the real zonal.stats (DataFrame and DataArray, rotating nodata /
   zone_ids list / statistic subset / dtypes / shape), _sort_and_stride recorded; ZonalStats_Judge.tla decides.
T  seeded rasters up to 8x8 (negative / fractional ids, int and float dtypes, value scale 1 and 1/2) and a
   single-chunk dask sample, judged the same way.
"""
import itertools
import json
import os
import random

from harness import core
from harness.props import zonal_util as U
from harness.props.zonal_util import NINF, PINF, NAN, NONE, R

Z6 = [NINF, -2, 1, 4, NAN, PINF]          # -inf, -1, 1/2, 2, NaN, +inf   (ids doubled)
Z5 = [-2, 1, 4, NAN, PINF]
V5 = [-1, 0, 2, NAN, PINF]
IDS = [-2, 1, 4, 14]                      # -1, 1/2, 2 and the absent id 7
ND6 = [NONE, -1, 0, 2, NAN, PINF]
DEFAULT = ["mean", "max", "min", "sum", "std", "var", "count"]
USER = ["dsum", "range", "sumsq", "n"]
IDLISTS = U.lists_over(IDS)               # 65 lists
STAT_CHOICES = ([list(s) for k in range(1, 8) for s in itertools.combinations(DEFAULT, k)]      # 127 subsets
                + [DEFAULT[::-1], USER, ["sum", "dsum", "n", "count"], ["range", "max", "min"],
                   ["var", "sumsq", "mean"], ["count", "std", "n", "dsum", "min"]])

# user reducers registered under BUILT-IN names: each name carries a different member of the reducer family
ALIAS = {"mean": "max", "max": "range", "min": "n", "sum": "sumsq", "std": "var", "var": "dsum", "count": "sum"}

INV = ["TypeOK", "SortedOK", "BreaksOK", "SliceIsZone", "FilteredIsValid", "RowsOK", "TableOK", "RasterOK"]
STATS_M = '{"mean", "max", "min", "sum", "var", "count", "range"}'
TODAY = '{"dropneginf"}'  # the variant of the transcription describing /repo today (after fix 7d7d291)
CODEVARIANT = TODAY


# ------------------------------------------------------------------------------------------- M
def mc(ctx, name, rasters, sels, variant=TODAY, mut="none", ties="stable", expect="ok", inv=None, stats=STATS_M,
       small=False):
    cfg = dict(spec="Spec", invariants=inv or INV, constants=dict(
        Rasters=R(rasters), Selections=R(sels), STATS=R(stats), TIES=ties, VARIANT=R(variant), MUT=mut))
    return U.checked_mc(ctx, "ZonalStats", cfg, name, expect, small=small)


def model_checks(ctx):
    z5n, z6, v5 = "{NINF, 0-2, 1, NAN, PINF}", U.tla_set(Z6), U.tla_set(V5)
    s12 = "Sels({NONE, 0, 2}, {<<1>>, <<4, 0-2>>, <<0-2, 14, 1>>})"
    s6 = "Sels({NONE, 2}, {<<4, 0-2>>, <<14, 1>>})"
    lists = "Sels({NONE, 2}, ListsOver({0-2, 1, 4, 14}))"
    six = "{<<0-1, 0, 2, NAN, PINF, 2>>}"
    thorough = ctx.tier == "thorough"
    # the code of today, zone alphabets with -inf, NaN, +inf: every invariant holds
    if thorough:
        mc(ctx, "today_n3", "AllRasters(3, %s, %s)" % (z6, v5), s6)
    else:   # quick: 4 selections (R replays every raster with rotating selections through the real code)
        mc(ctx, "today_n3", "AllRasters(3, %s, %s)" % (z6, v5), "Sels({NONE, 2}, {<<4, 0-2>>})")
    mc(ctx, "today_6cells", "FixedValueRasters(6, %s, %s)" % (z5n, six), "Sels({2}, {<<1, 0-2>>})")
    mc(ctx, "today_ties_any", "FixedValueRasters(4, {NINF, 1, 4, NAN}, {<<0, 2, NAN, 0-1>>, <<2, 2, 0, PINF>>})",
       "Sels({NONE, 2}, {<<4>>})", ties="any", small=True)
    mc(ctx, "today_lists_n2", "AllRasters(2, %s, {0, 2, NAN})" % z6, lists, small=True)     # every zone_ids list
    if thorough:
        mc(ctx, "today_n3_s12", "AllRasters(3, %s, %s)" % (z6, v5), s12)
        mc(ctx, "today_n4", "AllRasters(4, %s, {0, 2, NAN})" % z6, s6)
        mc(ctx, "today_multiset5", "MultisetRasters(5, %s, <<0, 2, NAN>>, <<4, 1, 5, 2, 3>>)" % U.tla_seq(Z6), s6)
        mc(ctx, "today_lists_n3", "AllRasters(3, %s, {0, 2, NAN})" % z6, lists)
        mc(ctx, "today_6cells_all", "FixedValueRasters(6, %s, %s)" % (z6, six), "Sels({NONE, 2}, {<<4, 0-2>>})")
        mc(ctx, "today_multiset6", "MultisetRasters(6, <<NINF, 0-2, 1, NAN>>, <<0, 2, NAN>>, <<4, 1, 5, 2, 6, 3>>)", s12)
        mc(ctx, "strip_lists_n2", "AllRasters(2, %s, {0, 2, NAN})" % z6, lists, variant='{"strip"}')  # alternative repair
    # negative twins.  (1) the code before fix 7d7d291: TLC must find the -inf counterexample (DESIGN section 8 #1)
    r = mc(ctx, "prefix_neginf_n2", "AllRasters(2, %s, %s)" % (z6, v5), s6, variant="{}", expect="violation")
    ctx.note("M: the pre-fix variant {} is refuted by TLC (%s) as soon as a zone cell is -inf" % r.invariant_violated)
    # (2) vacuity guards
    small = "AllRasters(3, {0-2, 1, NAN}, {0, 2, NAN, PINF})"
    for mut in ("lastcell", "startsel", "noinf", "emptyzero", "paintreq"):
        mc(ctx, "neg_" + mut, small, s6, mut=mut, expect="violation")
    ctx.exhaustive = True


# ------------------------------------------------------------------------------------------- jobs
def pick_dtypes(rng, z, v, vs):
    return U.pick_dtype(rng, z, 2, U.ZDTYPES), U.pick_dtype(rng, v, vs, U.VDTYPES)


def stats_job(rng, z, v, H, W, rt, vs=1, nds=ND6, idlists=IDLISTS, backend="numpy", tag="", p_all=0.12,
              stat_choices=STAT_CHOICES):
    zdt, vdt = pick_dtypes(rng, z, v, vs)
    all_ = rng.random() < p_all
    ids = [] if all_ else list(rng.choice(idlists))
    stats = list(rng.choice(stat_choices))
    if vdt == "float32":     # float32 arithmetic: only the statistics that stay exact on small integers
        stats = [s for s in stats if s in ("max", "min", "sum", "count", "range", "n", "dsum")] or ["sum", "count"]
    job = {"fn": "stats", "H": H, "W": W, "z": list(z), "v": list(v), "vs": vs, "zdt": zdt, "vdt": vdt,
           "nd": rng.choice(nds), "all": all_, "ids": ids, "stats": stats, "rt": rt,
           "backend": backend, "steps": backend == "numpy", "tag": tag}
    if backend == "numpy" and vdt != "float32" and rng.random() < 0.15:
        # a dict stats_funcs whose KEYS are built-in names (each bound to a different reducer) next to fresh names
        keys = rng.sample(DEFAULT, rng.randrange(1, 5))
        fresh = rng.sample(USER, rng.randrange(0, 3))
        job["keys"] = keys + fresh
        job["stats"] = [ALIAS[k] for k in keys] + fresh
    return U.vary(rng, job, list(v))


def enum_jobs(seed, n, zalpha, valpha, both=True, tag="", vfixed=None):
    """every raster of n cells over the alphabets (or every zone layout with fixed value vectors)."""
    jobs = []
    shp = U.shapes(n)
    k = 0
    vspace = [tuple(x) for x in vfixed] if vfixed else None
    for z in itertools.product(zalpha, repeat=n):
        for v in (vspace if vspace else itertools.product(valpha, repeat=n)):
            rng = random.Random(seed * 1000003 + k)
            H, W = shp[k % len(shp)]
            if both:
                jobs.append(stats_job(rng, z, v, H, W, "df", tag=tag))
                jobs.append(stats_job(rng, z, v, H, W, "da", tag=tag))
            else:
                jobs.append(stats_job(rng, z, v, H, W, "df" if k % 2 == 0 else "da", tag=tag))
            k += 1
    return jobs


def matrix_jobs(seed, nrasters, tag="layout_matrix"):
    """the systematic layout matrix: every (zones layout, values layout) pair on the same seeded rasters
    (at least 2 rows and 2 columns, asymmetric content), DataFrame and DataArray alternating."""
    base = [j for j in random_jobs(seed + 17, 6 * nrasters) if j["H"] > 1 and j["W"] > 1][:nrasters]
    jobs = []
    for k, b in enumerate(base):
        for a, zl in enumerate(U.LAYOUTS):
            for c, vl in enumerate(U.LAYOUTS):
                j = dict(b)
                j.update(zlay=zl, vlay=vl, rt="df" if (k + a + c) % 2 else "da", tag=tag)
                jobs.append(j)
    return jobs


TINY_IDS = {"0": -3e-9, "2": 0.0, "4": 2e-9, "6": 5e-9}     # code -> id; 6 is never a cell (requested only)


def close_id_jobs(seed, count, tag="close_ids"):
    """explicit zone_ids on rasters whose zone ids lie closer together than any float tolerance would separate:
    large adjacent integers (100000, 100001, 100002, also the half ids between them) and floats a few 1e-9 apart
    around 0 (through `zmap`); the request lists include an ABSENT id right next to a present one."""
    rng = random.Random(seed * 7919 + 17)
    jobs = []
    for k in range(count):
        H, W = rng.choice([(2, 3), (3, 3), (2, 2), (3, 4), (1, 6), (4, 2)])
        n = H * W
        tiny = k % 3 == 2
        if tiny:
            pool, absent = [0, 2, 4], [6]
        else:
            base = rng.choice([200000, 200000, 400000, 888880])           # ids 100000, 200000, 444440 (doubled)
            step = rng.choice([2, 2, 1])                                   # consecutive integers / half ids
            pool = [base, base + step, base + 2 * step]
            absent = [base + 3 * step, base - step]
        used = rng.sample(pool, rng.choice([2, 3, 3]))
        z = [NAN if rng.random() < 0.1 else rng.choice(used) for _c in range(n)]
        v = [NAN if rng.random() < 0.12 else rng.randrange(-9, 10) for _c in range(n)]
        cand = pool + absent
        idl = [[x] for x in cand] + [rng.sample(cand, rng.randrange(2, len(cand) + 1)) for _ in range(4)]
        j = stats_job(rng, z, v, H, W, rng.choice(["df", "da"]), nds=[NONE, NONE, NAN, v[0] if U.finite(v[0]) else 0],
                      idlists=idl, tag=tag, p_all=0.0)
        if tiny:
            j["zmap"] = dict(TINY_IDS)
            j["zdt"] = "float64"
        jobs.append(j)
    return jobs


def seq_jobs(seed, count, tag="sequence"):
    """call sequences on the SAME DataArray objects: stats, edit zones and/or values in place (cells to another zone,
    to NaN, values changed), stats again (same or other statistics / return type / selection), twice.
    share = zones: the same zones object with a new values object per call; values: vice versa."""
    rng = random.Random(seed * 7919 + 11)
    base = [j for j in random_jobs(seed + 29, 4 * count) if j["H"] > 1][:count]
    out = []
    for b in base:
        b = dict(b, zdt="float64", vdt="float64", tag=tag)
        if "nd_raw" in b:
            del b["nd_raw"]
            b["nd"] = NONE
        H, W, vs = b["H"], b["W"], b["vs"]
        zpool = sorted({c for c in b["z"] if U.finite(c)}) + [6, NAN]
        vpool = [c for c in b["v"] if U.finite(c)][:6] + [3 * vs, -5 * vs, NAN]
        steps, z, v = [b], list(b["z"]), list(b["v"])
        for _k in range(2):
            what = rng.choice(["z", "z", "v", "zv"])
            if "z" in what:
                z = U.mutate_codes(rng, z, W, zpool)
            if "v" in what:
                v = U.mutate_codes(rng, v, W, vpool)
            if rng.random() < 0.5:      # the very same call on the edited objects
                nj = dict(steps[-1], z=list(z), v=list(v))
            else:                       # other statistics / return type / selection
                present = sorted({c for c in z if U.finite(c)})
                idl = [present[:1], present[::-1], present[1:] + [998], [998]]
                nj = stats_job(rng, z, v, H, W, rng.choice(["df", "da"]), vs=vs, nds=[NONE, NAN, b["nd"]],
                               idlists=idl, tag=tag, p_all=0.4)
                nj.pop("nd_raw", None)
                if nj["nd"] == U.ODD_NODATA:
                    nj["nd"] = NONE
                for f in ("zdt", "vdt", "zlay", "vlay", "dims", "vs"):
                    nj[f] = b[f]
            steps.append(nj)
        out.append({"fn": "seq", "share": rng.choice(["both", "both", "zones", "values"]), "steps": steps,
                    "backend": "numpy", "tag": tag})
    return out


def random_jobs(seed, count, backend="numpy", tag="random"):
    rng = random.Random(seed * 7919 + (2 if backend == "numpy" else 3))
    jobs = []
    for _ in range(count):
        H, W = rng.choice([(2, 3), (3, 4), (4, 4), (5, 6), (6, 5), (7, 7), (8, 8), (1, 9), (8, 2)])
        n = H * W
        vs = rng.choice([1, 1, 2])
        pool = rng.sample([-6, -3, -2, 0, 1, 4, 5, 8, 14, 20], 6)        # ids -3 .. 10 incl. fractional ones
        if rng.random() < 0.3:
            pool = rng.sample([0, 2, 4, 8, 14, 20, 40, 510], 6)          # non-negative integer ids (uint8 zones)
        kinds = rng.choice(["finite", "nan", "nan", "posinf", "neginf"])
        single = backend == "dask" and rng.random() < 0.35               # one finite zone id + NaN zone cells
        if single:
            kinds, pool = "nan", [rng.choice(pool)] * 6
        z = []
        for _c in range(n):
            x = rng.random()
            if kinds != "finite" and x < (0.35 if single else 0.12):
                z.append(NAN)
            elif kinds == "posinf" and x < 0.2:
                z.append(PINF)
            elif kinds == "neginf" and x < 0.2:
                z.append(NINF)
            else:
                z.append(rng.choice(pool[:rng.choice([2, 4, 6])]))
        vk = rng.choice(["int", "int", "nan", "naninf"])
        nonneg = rng.random() < 0.4                                       # unsigned value dtypes
        v = []
        for _c in range(n):
            x = rng.random()
            if vk != "int" and x < 0.15:
                v.append(NAN)
            elif vk == "naninf" and x < 0.25:
                v.append(rng.choice([PINF, NINF]))
            else:
                v.append(rng.randrange(0 if nonneg else -9, 10) * (vs if rng.random() < 0.5 else 1))
        present = sorted({c for c in z if U.finite(c)})
        cand = present + [c for c in pool if c not in present][:2] + [998]
        idl = []
        for _k in range(6):
            sub = rng.sample(cand, rng.randrange(0, min(len(cand), 5) + 1))
            idl.append(sub)
        if backend == "dask":   # the dask path needs one requested zone to exist (it raises otherwise)
            if not present:
                continue
            idl = [l for l in idl if set(l) & set(present)] or [present[:1]]
        nds = [NONE, NAN, rng.randrange(-9, 10) * vs, v[0] if U.finite(v[0]) else 0]
        sc = [list(s) for s in STAT_CHOICES[:128]] if backend == "dask" else STAT_CHOICES
        j = stats_job(rng, z, v, H, W, rng.choice(["df", "da"]) if backend == "numpy" else "df", vs=vs, nds=nds,
                      idlists=idl, backend=backend, tag=tag, p_all=0.3, stat_choices=sc)
        jobs.append(j)
    return jobs


# ------------------------------------------------------------------------------------------- verdicts
def valid_cells(case, zone):
    nd = case["nd"]
    return [i for i, (a, b) in enumerate(zip(case["z"], case["v"])) if a == zone and U.finite(b) and b != nd]


def classify(case, clause):
    """stable key of a rejected case: a predicate on the CASE (not on the clause) selects the known classes."""
    job = case["job"]
    if NINF in case["z"]:
        return "stats:neginf-zone"
    if job.get("backend") == "dask":
        present = {c for c in case["z"] if U.finite(c)}
        sel = present if case["all"] else present & set(case["ids"])
        if any(not valid_cells(case, zz) for zz in sel):
            return "stats:dask-empty-zone"
    return "stats:%s" % clause


def nontrivial(case):
    present = {c for c in case["z"] if U.finite(c)}
    invalid = any((not U.finite(b)) or b == case["nd"] for b in case["v"])
    if len(present) < 2 or not invalid or case["all"]:
        return False
    req = [c for c in case["ids"] if c in present]
    return len(req) < len(present) or req != sorted(req)


def handle(ctx, fails, cases, verdicts, kind):
    for i, case in enumerate(cases):
        ctx.evaluations += 1
        if "error" in case:
            fails.add("stats:call-raised:%s" % case["error"].split(":")[0], "call_raised", case, case["error"][:200])
            continue
        cl = verdicts.get(i, "missing")
        dr = ctx.judge_extra.get(i)
        if nontrivial(case):
            ctx.nontrivial(hash((tuple(case["z"]), tuple(case["v"]), case["nd"], tuple(case["ids"]), case["rt"])))
        if cl != "ok":
            job = case["job"]
            if "focus" in job:
                kind = "call %d of a sequence on shared objects (share=%s)" % (job["focus"] + 1, job["seq_job"]["share"])
            fails.add(classify(case, cl), cl, case,
                      "%s %dx%d %s backend=%s zones=%s values=%s nodata=%s zone_ids=%s stats=%s"
                      % (kind, job["H"], job["W"], job["rt"], job.get("backend"), case["z"], case["v"], case["nd"],
                         "None" if case["all"] else case["ids"], case["stats"]))
        if dr and dr.startswith("drift"):
            ctx.report_drift("transcription of _stats_numpy vs code: %s on zones=%s values=%s ids=%s"
                             % (dr, case["z"], case["v"], case["ids"]))


def run_batch(ctx, fails, jobs, name, kind, size=80000):
    done = 0
    for part in U.chunks(jobs, size):
        cases = core.run_jobs("zonal_worker", part, nproc=U.nproc_for(part))
        U.check_worker(cases)
        cases = U.flatten(cases)
        good = [c for c in cases if "error" not in c]
        v = ctx.judge("ZonalStats_Judge", [U.strip(c) for c in good], name="%s_%d" % (name, done),
                      constants=dict(CODEVARIANT=R(CODEVARIANT)), parallel=ctx.pick(6, 8), env=U.JVM_JUDGE)
        # re-index verdicts / extras onto the full case list
        idx = [i for i, c in enumerate(cases) if "error" not in c]
        vv = {idx[k]: cl for k, cl in v.items()}
        ex = {idx[k]: ctx.judge_extra.get(k) for k in range(len(good))}
        ctx.judge_extra = ex
        handle(ctx, fails, cases, vv, kind)
        if done == 0:
            for c in good[:2]:
                ctx.sample({"kind": kind, "zones": c["z"], "values": c["v"], "nodata": c["nd"],
                            "zone_ids": None if c["all"] else c["ids"], "stats": c["stats"], "rt": c["rt"],
                            "rows": c["rows"], "table": c["tab"][:2], "zone_breaks": c["zb"]})
        done += len(part)


def scope_check(ctx, jobs, n, zalpha, valpha, name):
    """TLC asserts that the replayed inputs are the complete scope (the enumeration does not rest on Python)."""
    seen = {}
    for j in jobs:
        seen[(tuple(j["z"]), tuple(j["v"]))] = 1
    cases = [{"z": list(k[0]), "vs": [list(k[1])]} for k in seen]
    v = ctx.judge("ZonalScope", cases, name=name, parallel=1, count_traces=False,
                  constants=dict(N=n, ZA=R(U.tla_set(zalpha)), VA=R(U.tla_set(valpha)), LAYERS=1))
    if any(cl != "ok" for cl in v.values()):
        raise core.MachineryError("replayed enumeration %s is not the complete scope: %s" % (name, set(v.values())))


def replay(ctx, rec):
    """re-run exactly the recorded case through the real code and the judge"""
    job = rec["case"] if "fn" in rec["case"] else rec["case"]["job"]
    job = job.get("seq_job", job)          # a step of a call sequence: re-run the whole sequence
    cases = core.run_jobs("zonal_worker", [job], nproc=1)
    U.check_worker(cases)
    cases = U.flatten(cases)
    fails = U.Failures(ctx)
    good = [c for c in cases if "error" not in c]
    v = ctx.judge("ZonalStats_Judge", [U.strip(c) for c in good], name="replay",
                  constants=dict(CODEVARIANT=R(CODEVARIANT)))
    handle(ctx, fails, cases, v if good else {}, "replay")
    ctx.sample({"replayed": rec.get("clause"), "key": rec.get("key"),
                "verdict": v.get(0) if good else cases[0].get("error")})
    print("REPLAY verdict: %s" % ([v.get(k) for k in range(len(good))] if good else cases[0].get("error")), flush=True)
    fails.report()


def run(ctx):
    ctx.rule = ("case = (zones, values, nodata, zone_ids, statistics, return type); non-trivial when the raster has "
                ">= 2 zones, at least one invalid (NaN / inf / nodata) value and zone_ids is a proper sub-list or not "
                "ascending; distinct by (zones, values, nodata, zone_ids, return type)")
    ctx.assumptions = [
        "float bridge: max/min/sum/count and the user reducers must be integers within 1e-9 (exact_int); mean, var "
        "and std^2 must be within 1e-9 (relative, >= 4 ulp of the largest intermediate) of the closest rational with "
        "denominator <= cells resp. cells^2 (rational(D)); TLC compares the reduced fractions exactly",
        "zone ids are multiples of 1/2, values multiples of 1 or 1/2 with |v| <= 9, rasters <= 64 cells "
        "(all spec arithmetic stays below 2^31)",
        "DataFrame index labels are not part of the table (rows compared in order after reset_index)",
        "the dask sample requests at least one existing zone (the dask path raises otherwise, DESIGN section 3 rule 4)",
    ]
    if not os.environ.get("VERIF_DEV_SKIP_M"):      # development switch only
        model_checks(ctx)
    fails = U.Failures(ctx)
    thorough = ctx.tier == "thorough"
    # ---- R: the complete enumerations through the real code
    jobs = enum_jobs(ctx.seed, 3, Z6, V5, both=thorough, tag="all_n3")     # quick: DataFrame / DataArray alternate
    scope_check(ctx, jobs, 3, Z6, V5, "scope_n3")
    six = [[-1, 0, 2, NAN, PINF, 2], [2, 2, 0, -1, 0, NAN], [0, 1, 2, -1, -1, PINF]]
    jobs += enum_jobs(ctx.seed + 1, 6, Z6 if thorough else [NINF, -2, 1, NAN], None, both=False, tag="zones_6cells",
                      vfixed=six if thorough else six[:2])
    # ---- T: seeded larger rasters (same worker processes / judge JVMs as R: start-up dominates the quick tier)
    jobs += random_jobs(ctx.seed, ctx.pick(1500, 40000))
    jobs += matrix_jobs(ctx.seed, ctx.pick(60, 600))
    jobs += seq_jobs(ctx.seed, ctx.pick(300, 3000))
    jobs += close_id_jobs(ctx.seed, ctx.pick(600, 6000))
    run_batch(ctx, fails, jobs, "replay_and_random", "R/T")
    if thorough:
        run_batch(ctx, fails, enum_jobs(ctx.seed + 2, 4, Z6, V5, both=False, tag="all_n4"), "replay_n4", "R")
    # ---- a single-chunk dask sample
    run_batch(ctx, fails, random_jobs(ctx.seed, ctx.pick(40, 600), backend="dask", tag="dask"), "dask", "T-dask")
    fails.report()


META = {
    "technique": "TLA+ state machine of the sort-and-stride bookkeeping of zonal.stats checked exhaustively by TLC "
                 "against the set-based definition; the same enumerations and seeded larger rasters run through the "
                 "real function, every observed table / raster judged by TLC",
    "level_text": "ZonalStats.tla models np.argsort (-inf first, NaN last), the dropping of the -inf cells and the stripping of "
                  "the other non-finite zones, the "
                  "_strides cursor and the values_by_zones[start:end] slices of _calc_stats step by step; TLC explores "
                  "every raster of the small scopes (all rasters of <= 3-4 cells over 6 zone codes x 5 value codes, every "
                  "zone layout of 6 cells, every multiset of 5-6 cells) with every nodata / zone_ids choice of the "
                  "configuration and checks SliceIsZone, TableOK, RasterOK etc.; negative twins are rejected. The same "
                  "complete enumerations plus seeded rasters up to 8x8 (and a single-chunk dask sample) are run through "
                  "the real zonal.stats with _sort_and_stride recorded; ZonalStats_Judge.tla decides every observed "
                  "DataFrame / DataArray against the abstract definition and compares the recorded bookkeeping with the "
                  "transcription. Exhaustive on the small scope, sampled beyond it.",
    "level_note": "Trusted: TLC; the float bridge (exact_int and rational(D) rules, 1e-9); the encoding of ids as "
                  "doubled integers and of values as scaled integers; the worker's decoding of DataFrame / DataArray; "
                  "statistic subsets, dtypes, shapes and nodata rotate over the enumeration instead of forming the full "
                  "product.",
}
