"""C16 - zonal.regions labels are exactly the connected components of equal value.

M  Regions.tla: every raster over a small alphabet of small grids (both neighbourhoods); the two-pass
   relabel algorithm of _area_connectivity, one action per loop iteration, against Components (least
   fixpoint); negative twins.
R  every raster of the same configurations through the real regions(); Regions_Judge.tla decides the
   property on the observed labels (partition equality up to relabelling, labels positive, NaN kept,
   shape / dims / coords / attrs) and compares them label by label with the algorithm model (drift).
   TLC re-derives the enumeration index of every replayed raster, so completeness is TLC's statement.
T  seeded U / S / spiral / comb / ring / checkerboard / noise rasters up to 10x10, several dtypes,
   negative values, NaN cells, descending coordinates, renamed dims, attrs, extra coordinates.
"""
import itertools
import json
import random

from harness import core

NANV = -99
INV = ["TypeOK", "PartitionIsComponents", "LabelsPositive", "NaNKept", "PrefixLabelled",
       "NeverJoinsComponents", "MergedBehind"]


def mc(ctx, failed, module, cfg, name, **kw):
    """ctx.model_check for a configuration that must pass: a run that did not complete is a machinery
    failure; an invariant violated by the *model* is remembered (the replay of the real code decides
    whether it is a defect of the code or of the model)."""
    res = ctx.model_check(module, cfg, name, **kw)
    if res.invariant_violated or res.property_violated or res.assume_failed or res.deadlock:
        failed.append("%s/%s %s" % (module, name, res.invariant_violated))
        ctx.note("MODEL-VIOLATION %s/%s: %s" % (module, name, res.invariant_violated))
    elif not res.ok or res.distinct == 0:
        raise core.MachineryError("TLC did not complete %s/%s (rc=%s)\n%s" % (module, name, res.rc, res.out[-2500:]))
    return res


def close(ctx, failed):
    byk = {}
    for key, _cl, _path in ctx.violations:
        byk[key] = byk.get(key, 0) + 1
    ctx.extra["violations_by_key"] = byk
    if ctx.drift and not ctx.violations:
        ctx.note("STEP-MODEL DRIFT on %d observed cases although no property clause failed: the code no longer "
                 "follows the algorithm model, so the exhaustive result of M does not transfer - look at the DRIFT "
                 "lines" % len(ctx.drift))
    if failed and not ctx.violations:
        raise core.MachineryError("the algorithm model violates its invariants (%s) but no observation of the real "
                                  "code violates the property: the model does not describe the code" % "; ".join(failed))


def mc_configs(tier):
    # name, H, W, alphabet, n      (quick: <= 500 CPU-s for the whole check; the volume is in thorough)
    q = [
        ("3x3_b_n4", 3, 3, [0, 1], 4),
        ("3x3_b_n8", 3, 3, [0, 1], 8),
        ("3x4_b_n4", 3, 4, [0, 1], 4),
        ("3x2_nan_n8", 3, 2, [0, 1, NANV], 8),
        ("1x7_nan_n4", 1, 7, [0, 1, NANV], 4),
        ("7x1_nan_n8", 7, 1, [0, 1, NANV], 8),
        ("1x1_n4", 1, 1, [0, NANV], 4),
    ]
    t = q + [
        ("4x3_b_n8", 4, 3, [0, 1], 8),
        ("2x3_nan_n4", 2, 3, [0, 1, NANV], 4),
        ("2x3_t_n8", 2, 3, [0, 1, 2], 8),
        ("4x4_b_n4", 4, 4, [0, 1], 4),
        ("4x4_b_n8", 4, 4, [0, 1], 8),
        ("3x3_nan_n4", 3, 3, [0, 1, NANV], 4),
        ("3x3_nan_n8", 3, 3, [0, 1, NANV], 8),
        ("3x3_t_n4", 3, 3, [0, 1, 2], 4),
        ("3x3_t_n8", 3, 3, [0, 1, 2], 8),
        ("2x5_nan_n8", 2, 5, [0, 1, NANV], 8),
        ("5x2_t_n4", 5, 2, [0, 1, 2], 4),
        ("1x9_t_n8", 1, 9, [0, 1, 2], 8),
        ("9x1_nan_n4", 9, 1, [0, 1, NANV], 4),
    ]
    return t if tier == "thorough" else q


def enum_jobs(cfg):
    name, H, W, base, n = cfg
    jobs = []
    for idx, cells in enumerate(itertools.product(base, repeat=H * W)):
        vals = [list(cells[r * W:(r + 1) * W]) for r in range(H)]
        jobs.append({"H": H, "W": W, "vals": vals, "n": n, "dtype": "float64",
                     "xs": list(range(W)), "ys": list(range(H - 1, -1, -1)), "dims": ["y", "x"],
                     "attrs": {"res": 1}, "idx": idx, "base": base, "steps": 1, "tag": name})
    return jobs


# ---------------------------------------------------------------- seeded shape generators (0/1 grids)
def g_spiral(H, W, rng):
    """inward spiral corridor of 1s, one cell wide, arms separated by one cell of 0s"""
    g = [[0] * W for _ in range(H)]

    def free(r, c, dr, dc):
        nr, nc = r + dr, c + dc
        if not (0 <= nr < H and 0 <= nc < W) or g[nr][nc]:
            return False
        br, bc = nr + dr, nc + dc            # keep a gap: the cell beyond must not be corridor
        if 0 <= br < H and 0 <= bc < W and g[br][bc]:
            return False
        return True
    r, c, dr, dc = 0, 0, 0, 1
    g[0][0] = 1
    while True:
        if not free(r, c, dr, dc):
            dr, dc = dc, -dr                 # turn right
            if not free(r, c, dr, dc):
                break
        r, c = r + dr, c + dc
        g[r][c] = 1
    return g


def g_snake(H, W, rng):
    g = [[0] * W for _ in range(H)]
    side = rng.choice([0, 1])
    for r in range(0, H, 2):
        for c in range(W):
            g[r][c] = 1
        if r + 1 < H:
            g[r + 1][W - 1 if side else 0] = 1
            side ^= 1
    return g


def g_comb(H, W, rng):
    g = [[0] * W for _ in range(H)]
    for c in range(0, W, 2):
        for r in range(H):
            g[r][c] = 1
    for c in range(W):
        g[H - 1][c] = 1
    return g


def g_nested_u(H, W, rng):
    g = [[0] * W for _ in range(H)]
    k = 0
    while 2 * k < W and k < H:
        v = 1 - (k % 2)
        for r in range(0, H - k):
            g[r][k] = v
            g[r][W - 1 - k] = v
        for c in range(k, W - k):
            g[H - 1 - k][c] = v
        # fill the inside with the next value so that the Us are nested
        for r in range(0, H - 1 - k):
            for c in range(k + 1, W - 1 - k):
                g[r][c] = 1 - v
        k += 1
    return g


def g_rings(H, W, rng):
    return [[1 - (min(r, c, H - 1 - r, W - 1 - c) % 2) for c in range(W)] for r in range(H)]


def g_checker(H, W, rng):
    return [[(r + c) % 2 for c in range(W)] for r in range(H)]


def g_diag(H, W, rng):
    k = rng.choice([2, 3])
    return [[1 if (r + c) % k == 0 else 0 for c in range(W)] for r in range(H)]


def g_noise(H, W, rng):
    p = rng.choice([0.3, 0.5, 0.6, 0.7])
    return [[1 if rng.random() < p else 0 for _ in range(W)] for _ in range(H)]


def g_noise3(H, W, rng):
    return [[rng.choice([0, 1, 2]) for _ in range(W)] for _ in range(H)]


def g_walk(H, W, rng):
    """a self-avoiding-ish random corridor: long thin component with many bends"""
    g = [[0] * W for _ in range(H)]
    r, c = rng.randrange(H), rng.randrange(W)
    for _ in range(3 * H * W):
        g[r][c] = 1
        opts = []
        for dr, dc in ((0, 1), (1, 0), (0, -1), (-1, 0)):
            nr, nc = r + dr, c + dc
            if 0 <= nr < H and 0 <= nc < W and not g[nr][nc]:
                # keep the corridor thin: the new cell may touch only the current one
                touch = sum(1 for er, ec in ((0, 1), (1, 0), (0, -1), (-1, 0))
                            if 0 <= nr + er < H and 0 <= nc + ec < W and g[nr + er][nc + ec])
                if touch == 1:
                    opts.append((nr, nc))
        if not opts:
            break
        r, c = rng.choice(opts)
    return g


GENS = [g_spiral, g_snake, g_comb, g_nested_u, g_rings, g_checker, g_diag, g_noise, g_noise3, g_walk]


def sym(g, k):
    """one of the 8 symmetries of the rectangle (may swap H and W)"""
    if k & 1:
        g = [row[::-1] for row in g]
    if k & 2:
        g = g[::-1]
    if k & 4:
        g = [list(col) for col in zip(*g)]
    return g


def random_jobs(rng, n, maxside):
    jobs = []
    for i in range(n):
        gen = GENS[i % len(GENS)]
        H = rng.randint(2, maxside)
        W = rng.randint(2, maxside)
        if rng.random() < 0.08:
            H = 1
        elif rng.random() < 0.08:
            W = 1
        g = sym(gen(H, W, rng), rng.randrange(8))
        H, W = len(g), len(g[0])
        dtype = rng.choice(["float64", "float64", "float32", "int32", "int64"])
        # relabel the values (negative / zero / larger integers); equal stays equal, different different
        pool = rng.sample([-7, -1, 0, 1, 2, 3, 5, 9, 40], 3)
        g = [[pool[v] for v in row] for row in g]
        if dtype.startswith("float") and rng.random() < 0.6:
            p = rng.choice([0.03, 0.1, 0.2])
            g = [[NANV if rng.random() < p else v for v in row] for row in g]
        if rng.random() < 0.2:
            # sprinkle a few cells of the other value: breaks corridors, makes pinches
            for _ in range(rng.randint(1, 3)):
                g[rng.randrange(H)][rng.randrange(W)] = rng.choice(pool)
        sx, sy = rng.choice([(1, 1), (2, 1), (1, 3), (5, 5)])
        x0, y0 = rng.randrange(-20, 20), rng.randrange(-20, 20)
        xs = [x0 + sx * c for c in range(W)]
        ys = [y0 + sy * r for r in range(H)]
        if rng.random() < 0.6:
            ys = ys[::-1]
        if rng.random() < 0.15:
            xs = xs[::-1]
        dims = rng.choice([["y", "x"], ["y", "x"], ["lat", "lon"], ["row", "col"]])
        attrs = rng.choice([{}, {"res": 1}, {"res": 2, "crs": "EPSG:3857", "units": "m"}, {"nodata": -1}])
        scalar = rng.choice([{}, {}, {"band": 1}, {"spatial_ref": 0, "time": 7}])
        jobs.append({"H": H, "W": W, "vals": g, "n": rng.choice([4, 8]), "dtype": dtype, "xs": xs, "ys": ys,
                     "dims": dims, "attrs": attrs, "scalar": scalar,
                     "name": rng.choice([None, None, "zones"]), "idx": -1, "base": [],
                     "steps": 1, "tag": gen.__name__})
    return jobs


# ---------------------------------------------------------------- targeted families (cheap, many)
def plain_job(g, n, tag, steps=1):
    H, W = len(g), len(g[0])
    return {"H": H, "W": W, "vals": g, "n": n, "dtype": "float64", "xs": list(range(W)),
            "ys": list(range(H - 1, -1, -1)), "dims": ["y", "x"], "attrs": {"res": 1}, "idx": -1, "base": [],
            "steps": steps, "tag": tag}


def rot(cells):
    return [(c, -r) for r, c in cells]


def norm(cells):
    r0 = min(r for r, c in cells)
    c0 = min(c for r, c in cells)
    return tuple(sorted((r - r0, c - c0) for r, c in cells))


def small_shapes():
    """2-cell diagonal / anti-diagonal pairs, L, T, plus, 3-cell diagonal chains - all rotations"""
    base = {"diag2": [(0, 0), (1, 1)], "L3": [(0, 0), (1, 0), (1, 1)], "T4": [(0, 0), (0, 1), (0, 2), (1, 1)],
            "plus5": [(0, 1), (1, 0), (1, 1), (1, 2), (2, 1)], "diag3": [(0, 0), (1, 1), (2, 2)],
            "vee3": [(0, 0), (1, 1), (0, 2)]}
    out = {}
    for name, cells in base.items():
        for k in range(4):
            out.setdefault(norm(cells), name)
            cells = rot(cells)
    return sorted((name, cells) for cells, name in out.items())


def placement_jobs(rng, sizes):
    """(a) every placement (border and interior) of every small shape, value 1, on three backgrounds:
    all 0 / checkerboard of {0,2} / random over {0,2}; both neighbourhoods"""
    jobs = []
    for (H, W) in sizes:
        for name, cells in small_shapes():
            h = max(r for r, c in cells) + 1
            w = max(c for r, c in cells) + 1
            for r0 in range(H - h + 1):
                for c0 in range(W - w + 1):
                    for bg in ("other", "checker", "random"):
                        if bg == "other":
                            g = [[0] * W for _ in range(H)]
                        elif bg == "checker":
                            g = [[2 * ((r + c) % 2) for c in range(W)] for r in range(H)]
                        else:
                            g = [[rng.choice([0, 2]) for _ in range(W)] for _ in range(H)]
                        for r, c in cells:
                            g[r0 + r][c0 + c] = 1
                        for n in (4, 8):
                            jobs.append(plain_job(g, n, "place_%s_%s" % (name, bg)))
    return jobs


def place(cells, margins, fill=None):
    """cells: {(r, c): value}; margins (top, left, bottom, right); returns a grid (0 elsewhere, or `fill`
    inside the bounding box of the shape)"""
    r0 = min(r for r, c in cells)
    c0 = min(c for r, c in cells)
    h = max(r for r, c in cells) - r0 + 1
    w = max(c for r, c in cells) - c0 + 1
    t, l, b, rr = margins
    g = [[0] * (w + l + rr) for _ in range(h + t + b)]
    for r in range(h):
        for c in range(w):
            if fill is not None:
                g[t + r][l + c] = fill
    for (r, c), v in cells.items():
        g[t + r - r0][l + c - c0] = v
    return g


def comb_shape(rng):
    """W/M/E/comb: 3..5 parallel arms of different lengths, 1 or 2 cells apart, meeting in one spine row;
    variants: full spine (4-connected) or spine cells only under the gaps (arms touch it diagonally)"""
    k = rng.randint(3, 5)
    step = rng.choice([2, 2, 3])
    lens = [rng.randint(1, 4) for _ in range(k)]
    L = max(lens)
    cells = {}
    for a in range(k):
        for r in range(L - lens[a], L):
            cells[(r, a * step)] = 1
    kind = rng.choice(["full", "gaps", "full"])
    for c in range((k - 1) * step + 1):
        if kind == "full" or c % step != 0:
            cells[(L, c)] = 1
    return cells


def hook_shape(nw, ne, se, far, top, low):
    """late-meeting arms around one cell q = (0,0): diagonal tips of length nw / ne / se on its corners and a
    long arm that starts `top` rows above q in column -far, runs down and around and reaches q from below-left"""
    cells = {(0, 0): 1}
    for j in range(1, nw + 1):
        cells[(-j, -j)] = 1
    for j in range(1, ne + 1):
        cells[(-j, j)] = 1
    if se:
        cells[(1, 1)] = 1
    for r in range(top, low + 1):
        cells[(r, -far)] = 1
    for c in range(-far, 0):
        cells[(low, c)] = 1
    for j in range(1, low):
        cells[(low - j, -1 + j)] = 1
    return cells


def hook_jobs():
    """the whole parameter space of hook_shape x 8 symmetries x {off every border, on the borders, off the
    borders with the second value filling the gaps} x both neighbourhoods"""
    jobs = []
    for nw, ne, se, far, top, low in itertools.product((0, 1, 2), (0, 1, 2), (0, 1), (3, 4), (-2, -1), (1, 2)):
        cells = hook_shape(nw, ne, se, far, top, low)
        for k in range(8):
            for margins, fill in (((1, 1, 1, 1), None), ((0, 0, 0, 0), None), ((1, 1, 1, 1), 2)):
                g = sym(place(cells, margins, fill), k)
                for nb in (4, 8):
                    jobs.append(plain_job(g, nb, "arms_hook%s" % ("_filled" if fill else "")))
    return jobs


def tree_shape(rng, H, W):
    """random thin 8-connected tree: every new cell touches exactly one cell of the shape"""
    cells = {(rng.randrange(H), rng.randrange(W))}
    for _ in range(4 * H * W):
        r, c = rng.choice(sorted(cells))
        dr, dc = rng.choice([(-1, -1), (-1, 0), (-1, 1), (0, -1), (0, 1), (1, -1), (1, 0), (1, 1)])
        p = (r + dr, c + dc)
        if not (0 <= p[0] < H and 0 <= p[1] < W) or p in cells:
            continue
        touch = sum(1 for er in (-1, 0, 1) for ec in (-1, 0, 1) if (p[0] + er, p[1] + ec) in cells)
        if touch == 1 or (touch == 2 and rng.random() < 0.15):
            cells.add(p)
    return {p: 1 for p in cells}


def multiarm_jobs(rng, n):
    """(b) seeded late-meeting multi-arm shapes (combs, thin trees) under the 8 symmetries, shifted off every border (margins 0/1),
    rasters up to 8x10, with and without a second value filling the gaps, both neighbourhoods"""
    jobs = []
    i = 0
    while len(jobs) < n:
        i += 1
        kind = ("comb", "tree", "tree")[i % 3]
        if kind == "comb":
            cells = comb_shape(rng)
        else:
            cells = tree_shape(rng, rng.randint(4, 7), rng.randint(4, 8))
        margins = tuple(rng.choice([0, 1, 1]) for _ in range(4))
        fill = rng.choice([None, None, 2])
        g = place(cells, margins, fill)
        g = sym(g, i % 8 if kind != "tree" else rng.randrange(8))
        if len(g) > 10 or len(g[0]) > 10 or min(len(g), len(g[0])) > 8:
            continue
        for nb in (4, 8):
            jobs.append(plain_job(g, nb, "arms_%s%s" % (kind, "_filled" if fill else "")))
    return jobs


def small_random_jobs(rng, n):
    """(c) seeded random binary / ternary rasters 4x4 .. 7x7"""
    jobs = []
    for i in range(n):
        H, W = rng.randint(4, 7), rng.randint(4, 7)
        k = 2 if i % 2 == 0 else 3
        p = rng.choice([0.35, 0.5, 0.65])
        if k == 2:
            g = [[1 if rng.random() < p else 0 for _ in range(W)] for _ in range(H)]
        else:
            g = [[rng.choice([0, 1, 1, 2]) for _ in range(W)] for _ in range(H)]
        jobs.append(plain_job(g, 8 if i % 4 < 2 else 4, "random%d" % k))
    return jobs


# ---------------------------------------------------------------- input-variation matrix (layout x dtype)
DTYPES = ["int8", "uint8", "int16", "uint16", "int32", "uint32", "int64", "uint64", "float32", "float64"]
LAYOUTS = ["C", "F", "T", "S", "R"]        # C, Fortran, transposed view, strided view, reversed view
LAYOUT_CLASS = {"C": "C", "F": "F", "T": "F", "S": "A", "R": "A"}     # what numba specialises on


def moderate_valmap(dtype):
    """codes 0..4 -> small values valid in the dtype"""
    if dtype.startswith("float"):
        vals = ["0.5", "-2.25", "7.0", "1.5", "3.0"]
    elif dtype.startswith("u"):
        vals = ["0", "7", "3", "1", "2"]
    else:
        vals = ["-3", "5", "0", "1", "2"]
    return {str(i): v for i, v in enumerate(vals)}


def extreme_valmap(dtype):
    """extreme values of the dtype, pairwise far apart (more than any isclose tolerance) in exact arithmetic"""
    if dtype == "float32":
        return {"0": "-3e38", "1": "16777216.0", "2": "0.0"}
    if dtype == "float64":
        return {"0": "-1e300", "1": "16777217.0", "2": "0.1"}      # 16777217 and 0.1 are not float32 values
    bits = int(dtype.lstrip("uint"))
    if dtype.startswith("u"):
        return {"0": "0", "1": str(2 ** bits - 1), "2": str(2 ** (bits - 1))}
    return {"0": str(-2 ** (bits - 1)), "1": str(2 ** (bits - 1) - 1), "2": "0"}


def variation_groups(rng, pool, per_combo, extreme_per_dtype, make):
    """{signature: [jobs]}: a seeded sample of `pool` (one list of plain jobs with codes 0..2 per family; first a
    family is drawn, then a job of it) for every dtype x layout, with
    moderate values, plus a few with the extreme values of each dtype.  `make(job, dtype, layout, valmap, tag)`
    builds the concrete job.  The result must not depend on layout or dtype."""
    groups = {}
    for dt in DTYPES:
        for lay in LAYOUTS:
            for _ in range(per_combo):
                j = rng.choice(rng.choice(pool))
                groups.setdefault((dt, LAYOUT_CLASS[lay]), []).append(
                    make(j, dt, lay, moderate_valmap(dt), "vary_%s_%s_%s" % (dt, lay, j["tag"])))
        for k in range(extreme_per_dtype):
            j = rng.choice(rng.choice(pool))
            lay = LAYOUTS[k % len(LAYOUTS)]
            groups.setdefault((dt, LAYOUT_CLASS[lay]), []).append(
                make(j, dt, lay, extreme_valmap(dt), "extreme_%s_%s_%s" % (dt, lay, j["tag"])))
    return groups


def interleave(groups, nproc, start, filler):
    """core.run_jobs gives job i to process i % nproc.  Lay the groups out so that every signature is met (and
    JIT-compiled) by one process only; `start` = number of jobs already in the list.  Returns the jobs to append
    (with fillers, tag 'filler', where a process has nothing left)."""
    queues = [[] for _ in range(nproc)]
    for key in sorted(groups, key=lambda k: -len(groups[k])):
        q = min(range(nproc), key=lambda i: len(queues[i]))
        queues[q] += groups[key]
    out = [dict(filler) for _ in range((-start) % nproc)]
    for k in range(max(len(q) for q in queues)):
        for q in queues:
            out.append(q[k] if k < len(q) else dict(filler))
    return out


def regions_variant(j, dtype, layout, valmap, tag):
    v = dict(j, dtype=dtype, layout=layout, valmap=valmap, tag=tag)
    return v


# ---------------------------------------------------------------- many regions in a narrow dtype
def narrow_jobs(rng, tier):
    """rasters with 100 .. 400 provisional / final regions in int8 / uint8 (thresholds 128 and 256) and, for the
    same sizes, int16 / uint16 / int32 / float32: labels are stored in an array derived from the input, so they
    must not wrap (positive, one per component).  16-bit thresholds (32768+ regions) are beyond what the TLC judge
    can take and are not generated."""
    sizes = [(12, 12), (16, 16), (11, 13), (20, 20)] if tier == "quick" else \
        [(10, 13), (12, 12), (11, 12), (16, 16), (16, 17), (15, 17), (20, 20), (8, 40), (40, 7), (2, 140), (130, 2)]
    kinds = ["checker", "noise5", "stripes", "teeth"]
    wide = ["int16", "uint16", "int32", "float32"]
    jobs = []
    k = 0
    for (H, W) in sizes:
        for kind in kinds:
            if kind == "checker":
                g = [[(r + c) % 2 for c in range(W)] for r in range(H)]
            elif kind == "noise5":
                g = [[rng.randrange(5) for _ in range(W)] for _ in range(H)]
            elif kind == "stripes":          # one-cell columns, broken every few rows: many small regions
                g = [[(c % 2) if (r % 3) else 2 for c in range(W)] for r in range(H)]
            else:                            # teeth hanging from every second row: many provisional labels per region
                g = [[1 if (r % 2 == 1 or c % 2 == 0) else 0 for c in range(W)] for r in range(H)]
                g = g[::-1]
            g = sym(g, rng.randrange(8)) if kind != "checker" else g
            for dt in ("int8", "uint8", wide[k % 4]):
                nbs = (4, 8) if tier == "thorough" else (4,) if kind == "checker" else ((4, 8)[k % 2],)
                for nb in nbs:
                    j = plain_job(g, nb, "narrow_%s_%s" % (kind, dt))
                    j.update(dtype=dt, valmap=moderate_valmap(dt))
                    jobs.append(j)
                k += 1
    return jobs


# ---------------------------------------------------------------- bookkeeping
def has_nonrectangle(case):
    """count rule: some label class of the (accepted) result is not a full rectangle"""
    cls = {}
    for r, row in enumerate(case["out"]):
        for c, v in enumerate(row):
            if v > 0:
                cls.setdefault(v, []).append((r, c))
    for cells in cls.values():
        rs = [p[0] for p in cells]
        cs = [p[1] for p in cells]
        if (max(rs) - min(rs) + 1) * (max(cs) - min(cs) + 1) != len(cells):
            return True
    return False


STRIP = ("tag", "dtype", "name_out", "error", "job")


def violation_key(c, cl):
    """stable key of the failing class; the two ways integer extremes break _area_connectivity have their own"""
    j = c["job"]
    vm = j.get("valmap") or {}
    dt = j.get("dtype", "float64")
    if j.get("tag", "").startswith("narrow_") and dt in ("int8", "uint8", "int16", "uint16"):
        return "regions:labels-overflow-narrow-dtype"
    if dt.startswith("int") and cl in ("component_split", "components_joined"):
        lo = str(-2 ** (int(dt[3:]) - 1))
        if lo in vm.values() and any(vm.get(str(v)) == lo for row in j["vals"] for v in row):
            return "regions:signed-dtype-minimum-wraps-in-abs"
    if dt in ("int64", "uint64") and cl in ("component_split", "components_joined") and vm:
        if any(abs(int(x)) >= 2 ** 62 for x in vm.values()):
            return "regions:64bit-difference-wraps"
    return "regions:%s" % cl


def judge_and_handle(ctx, cases, name, kind, parallel):
    cases = [c for c in cases if c.get("tag") != "filler"]
    good = [c for c in cases if "error" not in c]
    for c in cases:
        if "error" in c:
            ctx.evaluations += 1
            ctx.violation("regions:call-raised", "call_raised", {"job": c["job"]}, c["error"])
    ctx.judge_extra.clear()
    v = ctx.judge("Regions_Judge", [{k: x for k, x in c.items() if k not in STRIP} for c in good],
                  name=name, parallel=parallel)
    for i, c in enumerate(good):
        ctx.evaluations += 1
        cl = v.get(i, "missing")
        if cl == "enum_index_mismatch":
            raise core.MachineryError("replay enumeration broken: case %d of %s is not raster number %d"
                                      % (i, name, c["idx"]))
        if cl == "ok":
            if has_nonrectangle(c):
                ctx.nontrivial((c["n"], c["H"], c["W"], tuple(map(tuple, c["vals"]))))
        else:
            ctx.violation(violation_key(c, cl), cl,
                          {"job": c["job"], "observed": {k: c[k] for k in c if k not in ("base", "job")}},
                          "%s %dx%d n=%d dtype=%s" % (c["tag"], c["H"], c["W"], c["n"], c["dtype"]))
        dr = ctx.judge_extra.get(i)
        if dr and dr.startswith("drift"):
            ctx.report_drift("labels differ from the algorithm model (%s): n=%d vals=%s out=%s"
                             % (kind, c["n"], c["vals"], c["out"]))
    return good


def replay(ctx, rec):
    """./check C16 --replay <file>: that one case again through the real regions() and the judge"""
    job = dict(rec["case"]["job"], idx=-1, base=[])
    cases = core.run_jobs("regions_worker", [job], nproc=1)
    good = judge_and_handle(ctx, cases, "replay", "replay", parallel=1)
    print("REPLAY verdict: %s" % ("ok" if (good and not ctx.violations) else
                                  (ctx.violations[0][1] if ctx.violations else cases[0].get("error"))), flush=True)


def run(ctx):
    ctx.rule = ("cases = (raster, neighbourhood); non-trivial when some connected component of the raster is "
                "not a full rectangle; distinct by (neighbourhood, shape, values)")
    ctx.assumptions = [
        "cell values are small integers (|v| <= 40), so numpy.isclose(rtol=1e-5, atol=1e-8) in the code is equality",
        "float bridge exact_int: a returned label must be an integer-valued float",
        "inf cells, non-integer values closer than the isclose tolerance and Dask/CuPy backed rasters are outside "
        "the stated domain and not exercised",
    ]
    rng = random.Random(ctx.seed * 7919 + 16)
    cfgs = mc_configs(ctx.tier)
    # ---- M
    failed = []
    for (name, H, W, base, n) in cfgs:
        mc(ctx, failed, "Regions", dict(spec="Spec", invariants=INV, constants=dict(
            H=H, W=W, VALS=set(base), N=n, MUT="none")), name, coverage=(name == "3x3_b_n4"), timeout=4 * 3600,
           workers=(4 if H * W <= 12 else 16))      # small scopes: extra TLC workers only burn CPU
    # negative twins: TLC must reject each broken variant of the two passes
    twins = [("nopass2", 3, 3, 4), ("noelse", 3, 3, 4), ("localreplace", 3, 3, 4),
             ("absmin", 2, 3, 4), ("wrap64", 2, 3, 8)]     # the comparison defects repaired in repo commit 8648623
    if ctx.tier == "thorough":
        twins.append(("alwaysnew", 3, 4, 4))        # needs an interior isolated pair: 100k states
    for mut, H, W, n in twins:
        ctx.model_check("Regions", dict(spec="Spec", invariants=["PartitionIsComponents"], constants=dict(
            H=H, W=W, VALS={0, 1}, N=n, MUT=mut)), "neg_" + mut, expect="violation", workers=(2 if H * W <= 6 else 4))
    ctx.exhaustive = True

    # ---- one round of worker processes for everything that runs the real code
    ejobs = []
    for cfg in cfgs:
        ejobs += enum_jobs(cfg)
    sizes = [(h, w) for h in (4, 5, 6) for w in (4, 5, 6)]
    fjobs = (placement_jobs(rng, sizes) + hook_jobs() + multiarm_jobs(rng, ctx.pick(1500, 12000))
             + small_random_jobs(rng, ctx.pick(3000, 40000)))
    tjobs = fjobs + random_jobs(rng, ctx.pick(300, 4000), 10) + narrow_jobs(rng, ctx.tier)
    # input-variation matrix: layout x dtype on a seeded sample of every family (same result expected)
    nproc = ctx.pick(8, 16)
    fam = {}
    for j in fjobs:
        fam.setdefault("_".join(j["tag"].split("_")[:2]), []).append(j)
    for g in GENS:
        fam[g.__name__] = [plain_job(sym(g(rng.randint(3, 8), rng.randint(3, 8), rng), rng.randrange(8)),
                                     rng.choice([4, 8]), g.__name__) for _ in range(6)]
    pool = [fam[k] for k in sorted(fam)]
    groups = variation_groups(rng, pool, ctx.pick(6, 60), ctx.pick(3, 20), regions_variant)
    vjobs = interleave(groups, nproc, len(ejobs) + len(tjobs), plain_job([[0]], 4, "filler", steps=0))
    tjobs += vjobs
    ctx.extra["variation_cases"] = sum(len(g) for g in groups.values())
    allcases = core.run_jobs("regions_worker", ejobs + tjobs, nproc=nproc)
    # ---- R: the complete enumerated scope through the real regions()
    cases = allcases[:len(ejobs)]
    good = judge_and_handle(ctx, cases, "replay_all_rasters", "R", parallel=ctx.pick(1, 8))
    ctx.extra["replayed_rasters"] = len(cases)
    for c in good[5:6] + good[300:301]:
        ctx.sample({"kind": "replay", "n": c["n"], "vals": c["vals"], "labels": c["out"]})
    del good, cases

    # ---- T: seeded larger rasters
    cases = allcases[len(ejobs):]
    del allcases
    good = judge_and_handle(ctx, cases, "seeded_shapes", "T", parallel=ctx.pick(2, 8))
    ctx.extra["targeted_family_cases"] = len(fjobs)
    for c in good[-3:]:
        ctx.sample({"kind": "seeded", "gen": c["tag"], "n": c["n"], "dtype": c["dtype"], "vals": c["vals"],
                    "labels": c["out"]})
    close(ctx, failed)


META = {
    "technique": "TLA+ model of the two-pass relabel algorithm checked exhaustively by TLC against a fixpoint "
                 "definition of connected components; every enumerated raster and seeded larger shapes run "
                 "through the real regions() and judged by TLC",
    "level_text": "TLC explores every raster over {0,1} up to 4x4 and over {0,1,NaN} / {0,1,2} up to 3x3 (plus "
                  "1xN, Nx1), neighbourhood 4 and 8, on Regions.tla (first pass / second pass as actions; "
                  "partition = Components, labels positive, NaN kept, plus the inductive step invariants; "
                  "negative twins rejected). Every one of those rasters, and seeded U/S/spiral/comb/ring rasters up "
                  "to 10x10, is run through the real regions(); Regions_Judge.tla decides the property on the "
                  "observed output and compares it label by label with the model. Exhaustive on the small scope, "
                  "sampled beyond it.",
    "level_note": "Trusted: TLC; the encoding of the worker (labels must be integer-valued floats; coordinates "
                  "and attrs compared as encoded integer / string lists); integer cell values so that isclose is "
                  "equality. Quick tier uses the grids up to 3x4; thorough adds 4x4 and the 3x3 ternary alphabets.",
}
