"""Entry point:  ./check Cxx [--tier quick|thorough] [--replay path] [--selftest]"""
import argparse
import importlib
import os
import sys
import traceback

from harness import core


def main():
    ap = argparse.ArgumentParser()
    ap.add_argument("prop")
    ap.add_argument("--tier", default=os.environ.get("VERIF_TIER", "quick"))
    ap.add_argument("--replay")
    ap.add_argument("--selftest", action="store_true")
    a = ap.parse_args()
    tier = a.tier if a.tier in ("quick", "thorough") else "quick"
    try:
        seed = int(os.environ.get("VERIF_SEED", "0"))
    except ValueError:
        seed = 0
    pid = a.prop.upper()
    ctx = core.Ctx(pid, tier=tier, seed=seed, selftest=a.selftest, replay=a.replay)
    try:
        mod = importlib.import_module("harness.props.%s" % pid.lower())
        if a.replay:
            import json
            rec = json.load(open(a.replay))
            if not hasattr(mod, "replay"):
                raise core.MachineryError("replay not implemented for %s" % pid)
            ctx.tier = "quick"
            mod.replay(ctx, rec)
            ctx.states = max(ctx.states, 1)
            ctx.transitions = max(ctx.transitions, 1)
        else:
            mod.run(ctx)
        rc = ctx.finish()
    except core.MachineryError as ex:
        print("MACHINERY-FAILURE property=%s: %s" % (pid, ex), file=sys.stderr)
        ctx.cleanup()
        sys.exit(2)
    except Exception:
        traceback.print_exc()
        print("MACHINERY-FAILURE property=%s: unexpected exception" % pid, file=sys.stderr)
        ctx.cleanup()
        sys.exit(2)
    sys.exit(rc)


if __name__ == "__main__":
    main()
