"""C11: the ONE-PARAMETER alphabet.  Rule: for EVERY public function of the catalogue and for EVERY parameter of it (the
raster argument included: '@seed' = other values of the same shape, '@dtype' = other element type) there are two calls that
differ in exactly that parameter - so every parameter is a potential missing component of some cache key / memo / compiled
closure.  Results are digested whatever they are (rasters, tables, kernels, tuples).

TABLE[f] = (group, base parameters, [(parameter name, {catalogue keys: values})...])
  group  : functions of one group share two warm worker processes (P1 / P2), so a function is JIT-compiled twice per run
  '='name: the variation passes the DEFAULT value explicitly - its result must equal the base call's (same effective arguments)
Parameters not varied: x / y / xdim / ydim (dimension names: the input builders use y, x), crosstab `layer` (3-D only),
polygonize `column_name` / `return_type` (optional geo dependencies), hillshade `shadows` (needs a GPU ray tracer); bump is
random by design (no seed parameter): its calls only consume the global generator, their results are not compared.
"""

NAME = ("name", {"name": "other"})
SEED = ("@seed", {"@seed": 1})
INT = ("@dtype", {"@dtype": "int32"})
DASK = ("@backend", {"@backend": "dask"})
SHAPE = ("@shape", {"@shape": [5, 8]})        # the raster's SIZE / shape varies alone (same dtype, backend, parameters)

TABLE = {
    # ---- proximity family (every call re-JITs a closure: few raster variations)
    "proximity": ("prox", {}, [("target_values", {"target_values": [3]}), ("max_distance", {"max_distance": 4.5}),
                               ("distance_metric", {"distance_metric": "MANHATTAN"}), SEED, INT]),
    "allocation": ("prox", {}, [("target_values", {"target_values": [3]}), ("max_distance", {"max_distance": 4.5}),
                                ("distance_metric", {"distance_metric": "MANHATTAN"})]),
    "direction": ("prox", {}, [("target_values", {"target_values": [3]}), ("max_distance", {"max_distance": 4.5}),
                               ("distance_metric", {"distance_metric": "GREAT_CIRCLE"})]),
    # ---- focal / convolution / kernel constructors
    "circle_kernel": ("focal", {}, [("cellsize_x", {"cx": 2}), ("cellsize_y", {"cy": 2}), ("radius", {"radius": 3})]),
    "annulus_kernel": ("focal", {}, [("cellsize_x", {"cx": 2}), ("cellsize_y", {"cy": 2}), ("outer_radius", {"outer": 3}),
                                     ("inner_radius", {"inner": 0.5})]),
    "custom_kernel": ("focal", {}, [("kernel", {"kernel": "box3"})]),
    "calc_cellsize": ("focal", {}, [SEED]),
    "convolution_2d": ("focal", {}, [("kernel", {"kernel": "circle5"}), NAME, SEED]),
    "focal_mean": ("focal", {}, [("passes", {"passes": 2}), ("excludes", {"excludes": [4.0, 7.0]}), NAME, SEED,
                                 ("=excludes", {"excludes": [float("nan")]})]),
    "focal_apply": ("focal", {}, [("kernel", {"kernel": "circle5"}), ("func", {"func": "_calc_max"}), NAME, SEED]),
    "focal_stats": ("focal", {"stats": ["mean", "sum", "std"]}, [("kernel", {"kernel": "box3"}),
                                                                 ("stats_funcs", {"stats": ["min", "sum"]}), SEED]),
    "hotspots": ("focal", {}, [("kernel", {"kernel": "box3"}), SEED]),
    # ---- zonal
    # first a user DICT whose keys collide with built-in names (and whose functions differ): every later call of the
    # schedule - default list, explicit lists with 'max' - uses the built-in names after it
    "zonal_stats": ("zonal", {}, [("stats_funcs_dict", {"stats_dict": "custom"}),
                                  ("zone_ids", {"zone_ids": [1, 3]}), ("stats_funcs", {"stats_funcs": ["max", "sum", "count"]}),
                                  ("nodata_values", {"nodata_values": 10}), ("return_type", {"return_type": "xarray.DataArray"}),
                                  ("=stats_funcs", {"stats_funcs": ["mean", "max", "min", "sum", "std", "var", "count"]}), SEED,
                                  # a user dict whose keys collide with built-in names (NumPy only), and the built-in names after it
                                  ]),
    "zonal_crosstab": ("zonal", {}, [("zone_ids", {"zone_ids": [0, 3]}), ("cat_ids", {"cat_ids": [10, 30]}),
                                     ("agg", {"agg": "percentage"}), ("nodata_values", {"nodata_values": 10}), SEED]),
    "zonal_apply": ("zonal", {}, [("func", {"func": "plus1"}), ("nodata", {"nodata": 2}), SEED]),
    "regions": ("zonal", {}, [("neighborhood", {"neighborhood": 8}), NAME, SEED]),
    "trim": ("zonal", {"values": [0]}, [("values", {"values": [0, 1]}), NAME, SEED]),
    "crop": ("zonal", {}, [("zones_ids", {"ids": [5]}), NAME, SEED]),
    # ---- classifiers and the 3x3 stencils
    "binary": ("classify", {}, [("values", {"values": [1, 2, 3]}), NAME, SEED]),
    "reclassify": ("classify", {}, [("bins", {"bins": [10, 20, 30]}), ("new_values", {"new": [7, 8, 9]}), NAME, SEED]),
    "quantile": ("classify", {}, [("k", {"k": 3}), NAME, SEED]),
    # num_sample below the raster size (42 / 40 cells): the sub-sampling path, for two raster sizes
    "natural_breaks": ("classify", {"num_sample": 20}, [("k", {"k": 3}), ("num_sample", {"num_sample": 30}), NAME, SEED,
                                                        ("=num_sample", {"num_sample": 20})]),
    "equal_interval": ("classify", {}, [("k", {"k": 3}), NAME, SEED]),
    "slope": ("stencil", {}, [NAME, SEED, INT]),
    "aspect": ("stencil", {}, [NAME, SEED]),
    "curvature": ("stencil", {}, [NAME, SEED]),
    "hillshade": ("stencil", {}, [("azimuth", {"azimuth": 100}), ("angle_altitude", {"angle_altitude": 40}), NAME, SEED]),
    # ---- spectral indices
    "arvi": ("spectral", {}, [NAME, SEED]), "gci": ("spectral", {}, [NAME, SEED]), "nbr": ("spectral", {}, [NAME, SEED]),
    "nbr2": ("spectral", {}, [NAME, SEED]), "ndvi": ("spectral", {}, [NAME, SEED]), "ndmi": ("spectral", {}, [NAME, SEED]),
    "sipi": ("spectral", {}, [NAME, SEED]), "ebbi": ("spectral", {}, [NAME, SEED]),
    "evi": ("spectral", {}, [("c1", {"c1": 5.0}), ("c2", {"c2": 7.0}), ("soil_factor", {"soil_factor": 0.5}),
                             ("gain", {"gain": 2.0}), NAME, SEED]),
    "savi": ("spectral", {}, [("soil_factor", {"soil_factor": 0.5}), NAME, SEED]),
    "true_color": ("spectral", {}, [("nodata", {"nodata": 5}), ("c", {"c": 8.0}), ("th", {"th": 0.2}), NAME, SEED]),
    # ---- generators (the template raster only gives shape and backend), the unseeded RNG consumer, path finding
    "bump": ("gen", {}, [("count", {"count": 3}), ("spread", {"spread": 2}), ("width", {"w": 8}), ("height", {"h": 5})]),
    "perlin": ("gen", {}, [("freq", {"freq": [2, 3]}), ("seed", {"seed": 7}), NAME, ("=seed", {"seed": 5})]),
    "generate_terrain": ("gen", {}, [("x_range", {"x_range": [0, 250]}), ("y_range", {"y_range": [0, 250]}),
                                     ("seed", {"seed": 3}), ("zfactor", {"zfactor": 100}),
                                     ("full_extent", {"full_extent": [0, 0, 1000, 1000]}), NAME, ("=seed", {"seed": 10})]),
    "a_star_search": ("gen", {}, [("start", {"sy": 1}), ("goal", {"gy": 2}), ("barriers", {"barriers": [3]}),
                                  ("connectivity", {"connectivity": 4}), ("snap_start", {"snap_start": True}),
                                  ("snap_goal", {"snap_goal": True}), SEED]),
    # ---- local operators and helpers
    "local_cell_stats": ("local", {}, [("func", {"func": "max"}), ("data_vars", {"data_vars": ["v0", "v1"]}), SEED]),
    "local_combine": ("local", {}, [("data_vars", {"data_vars": ["v0", "v1"]}), SEED]),
    "local_lowest_position": ("local", {}, [("data_vars", {"data_vars": ["v0", "v1"]}), SEED]),
    "local_highest_position": ("local", {}, [("data_vars", {"data_vars": ["v0", "v1"]}), SEED]),
    "local_lesser_frequency": ("local", {}, [("ref_var", {"ref_var": "v1"}), ("data_vars", {"data_vars": ["v1", "v2"]}), SEED]),
    "local_equal_frequency": ("local", {}, [("ref_var", {"ref_var": "v1"}), ("data_vars", {"data_vars": ["v1", "v2"]}), SEED]),
    "local_greater_frequency": ("local", {}, [("ref_var", {"ref_var": "v1"}), ("data_vars", {"data_vars": ["v1", "v2"]}), SEED]),
    "local_popularity": ("local", {}, [("ref_var", {"ref_var": "v1"}), ("data_vars", {"data_vars": ["v1", "v2"]}), SEED]),
    "local_rank": ("local", {}, [("ref_var", {"ref_var": "v1"}), ("data_vars", {"data_vars": ["v1", "v2"]}), SEED]),
    "calc_res": ("local", {}, [SEED]), "get_dataarray_resolution": ("local", {}, [SEED]), "get_xy_range": ("local", {}, [SEED]),
    "validate_arrays": ("local", {}, [SEED]),
    "color_values": ("local", {}, [("color_key", {"c2": "black"}), ("alpha", {"alpha": 100}), SEED]),
    # ---- heavier to JIT
    "polygonize": ("poly", {}, [("connectivity", {"connectivity": 8}), ("transform", {"transform": [10.0, 2.0, 0.0, 5.0, 0.0, 2.0]}),
                                SEED]),      # int vs float rasters (type-generated comparison): the thorough alphabet
    "polygonize_mask": ("poly", {}, [SEED]),
    "summarize_terrain": ("poly", {}, [SEED]),
    "canvas_like": ("poly", {}, [("width", {"width": 5}), ("height", {"height": 3}), ("x_range", {"x_range": [10.0, 18.0]}),
                                 ("y_range", {"y_range": [4.0, 12.0]}), SEED]),
    # ---- thorough only (22 s first-call JIT)
    "viewshed": ("viewshed", {}, [("x", {"vx": 0}), ("y", {"vy": 0}), ("observer_elev", {"oe": 1}), ("target_elev", {"te": 3}), SEED]),
}
for _f, (_g, _b, _v) in TABLE.items():
    if SEED in _v and _f not in ("allocation", "direction", "polygonize_mask", "viewshed"):
        _v.append(SHAPE)
for _f in ("proximity", "convolution_2d", "focal_mean", "zonal_stats", "zonal_crosstab", "quantile", "slope", "ndvi",
           "true_color", "perlin", "generate_terrain"):
    TABLE[_f][2].append(DASK)             # the array backend of the raster argument varies alone as well
INT_DTYPE_FUNCS = {"local_rank"}          # float rasters are outside this function's domain
LOCAL_INT = {f for f in TABLE if f.startswith("local_")}

# float-raster reductions whose result must not depend on the thread count (NUMBA_NUM_THREADS / numba.set_num_threads)
K5 = {"kernel": "circle5"}
# (function, parameters, dtype, backend, raster size).  NumPy calls on 160 x 176 rasters with 5 x 5 kernels (kernels may switch
# to a parallel build only above a size threshold); Dask graphs on 40 x 48 with the threaded scheduler.
THREAD_CALLS = [("zonal_stats", {}, "float64", "numpy", [160, 176]), ("zonal_stats", {}, "float32", "numpy", [160, 176]),
                ("focal_stats", dict(K5, stats=["mean", "sum", "std", "var"]), "float32", "numpy", [160, 176]),
                ("focal_apply", dict(K5), "float32", "numpy", [160, 176]), ("hotspots", dict(K5), "float32", "numpy", [160, 176]),
                ("convolution_2d", dict(K5), "float32", "numpy", [160, 176]), ("focal_mean", {}, "float64", "numpy", [160, 176]),
                ("true_color", {}, "float32", "numpy", [160, 176]),
                ("focal_apply", {}, "float32", "dask", [40, 48]), ("zonal_stats", {}, "float64", "dask", [40, 48]),
                ("hotspots", {}, "float32", "dask", [40, 48])]


def entries(tier):
    """-> list of call entries (dicts for the worker + ids for the specification)"""
    out = []
    for f, (group, base, vary) in TABLE.items():
        if f == "viewshed" and tier != "thorough":
            continue
        dtype = "int32" if f in INT_DTYPE_FUNCS else "float64"

        def mk(pname, delta):
            params = dict(base)
            dt, seed, backend, hw = dtype, 0, "numpy", None
            for k, v in delta.items():
                if k == "@seed":
                    seed = v
                elif k == "@shape":
                    hw = list(v)
                elif k == "@dtype":
                    dt = v
                elif k == "@backend":
                    backend = v
                else:
                    params[k] = v
            sig = {"float64": "f8", "int32": "i4", "float32": "f4"}[dt] + ("d" if backend == "dask" else "")
            c = "%s|%s|%s" % (f, pname, sig)
            eff = "%s|base|%s" % (f, sig) if pname.startswith("=") else c
            return {"c": c, "f": f, "p": pname, "sig": sig, "eff": eff, "pos": len(vary_done), "params": params, "dtype": dt, "backend": backend,
                    "layout": "C", "seed": seed, "finite": True, "hw": hw, "group": group, "cost": 1.0}
        vary_done = []
        out.append(mk("base", {}))
        for pname, delta in vary:
            vary_done.append(pname)
            out.append(mk(pname, delta))
    return out


# functions whose JIT compilation is expensive (a closure re-compiled on every call, many kernels): they are compiled in two
# processes only (P1 / P2); every other function gets a strict first-call reference for every variation (R_k processes)
EXPENSIVE = {"proximity", "allocation", "direction", "polygonize", "polygonize_mask", "focal_stats", "viewshed",
             "regions", "a_star_search", "canvas_like"}


JIT_COST = {"proximity": 1.3, "allocation": 1.3, "direction": 1.3, "polygonize": 5.0, "polygonize_mask": 2.5, "focal_stats": 2.5,
            "viewshed": 22.0, "canvas_like": 1.5, "summarize_terrain": 1.2, "regions": 1.8, "a_star_search": 1.0,
            "generate_terrain": 1.3, "perlin": 1.0, "focal_apply": 1.0}
# seconds per CALL (not per first call): proximity re-JITs a closure on every call, generate_terrain draws 16 permutations
# of 2^20 elements.  These functions get the compact schedules (see `schedules`).
PER_CALL = {"proximity": 1.3, "allocation": 1.1, "direction": 1.1, "generate_terrain": 1.3}


def schedules(ents, nproc=11):
    """-> (processes: list of call lists, ref: call id -> index of the process that provides its reference).
    Units (one function each):
      P1(f)    base, v1, base, v2, base, ..., vn, base        A,B,A around every variation; base is the first call
      R(f, k)  vk, base, vk   (cheap functions)               B,A,B; vk is the FIRST call of f in its interpreter: a strict
               reference even when a memo key misses several parameters.  The `name` variation rides in front of the
               '@seed' block (v_name, v_seed, base, v_seed, v_name): it differs from v_seed in two parameters.
      P2(f)    v1, ..., vn, base, v1, ..., vn   (EXPENSIVE functions instead of R: compiled twice only)
    Units are packed into `nproc` warm worker processes such that NO process holds two units of the same function, so the
    first call of every unit is the first call of its function in that interpreter.  References: base = first call of
    P1(f); vk = first call of R(f, k) (resp. its first occurrence in P2(f))."""
    by_f = {}
    for e in ents:
        by_f.setdefault(e["f"], []).append(e)
    units = []                      # (cost, function, calls, {call id: this unit provides its reference})
    for f, es in by_f.items():
        base, vs = es[0], es[1:]
        jit = JIT_COST.get(f, 0.6)
        per = PER_CALL.get(f, 0.03)
        compact = f in PER_CALL               # expensive per call: base, v1, ..., vn, base  /  vk, base  /  v1, ..., vn, base
        if compact:
            p1 = [base] + vs + [base]
        else:
            p1 = [base]
            for v in vs:
                p1 += [v, base]
        units.append((jit + per * len(p1), f, p1, {base["c"]}))
        if f in EXPENSIVE:
            p2 = vs + [base] + ([] if compact else vs)
            units.append((jit + per * len(p2), f, p2, {v["c"] for v in vs}))
            continue
        # the variations of the raster argument itself and of `name` share ONE unit:
        # v_shape, v_name, v_seed, base, v_seed, v_name, v_shape  (each differs from its predecessors in two parameters)
        rasterish = [v for p_ in ("@shape", "name", "@seed") for v in vs if v["p"] == p_]
        if len(rasterish) > 1:
            calls = rasterish + [base] + ([] if compact else list(reversed(rasterish)))
            units.append((jit + per * len(calls), f, calls, {v["c"] for v in rasterish}))
        for v in vs:
            if len(rasterish) > 1 and v in rasterish:
                continue
            units.append((jit + per * 3, f, [v, base] if compact else [v, base, v], {v["c"]}))
    units.sort(key=lambda u: (-u[0], u[1]))
    procs = [[] for _ in range(nproc)]
    load = [0.0] * nproc
    has = [set() for _ in range(nproc)]
    ref = {}
    for cost, f, calls, provides in units:
        cand = [i for i in range(nproc) if f not in has[i]]
        if not cand:
            raise ValueError("more units of %s than processes" % f)
        i = min(cand, key=lambda k: load[k])
        procs[i] += calls
        load[i] += cost
        has[i].add(f)
        for c in provides:
            ref[c] = i
    return procs, ref


def thread_entries():
    out = []
    for f, params, dt, backend, hw in THREAD_CALLS:
        sig = {"float64": "f8", "float32": "f4"}[dt] + ("d" if backend == "dask" else "") + "x%d" % hw[0]
        c = "%s|%s|%s" % (f, "thr", sig)
        out.append({"c": c, "f": f, "p": "thr", "sig": sig, "eff": c, "params": dict(params), "dtype": dt, "backend": backend,
                    "layout": "C", "seed": 0, "finite": True, "hw": list(hw), "group": "threads", "cost": 1.0})
    return out


def joint_entries():
    """Dask results of ONE function for rasters of equal shape / chunks but different coordinates (and one different
    parameter), first computed separately, then TOGETHER (dask.compute(r1, r2)): -> list of calls of one history"""
    out = []
    for f, params, var in (("proximity", {}, {"max_distance": 4.5}), ("direction", {}, None),
                           ("slope", {}, None), ("focal_mean", {}, {"passes": 2}), ("convolution_2d", {}, {"kernel": "circle5"})):
        a = {"c": "%s|joint_a|f8d" % f, "f": f, "p": "joint_a", "sig": "f8d", "params": dict(params), "coordscale": 1}
        b = {"c": "%s|joint_b|f8d" % f, "f": f, "p": "joint_b", "sig": "f8d", "params": dict(params), "coordscale": 3}
        calls = [a, b]
        if var:
            calls.append({"c": "%s|joint_c|f8d" % f, "f": f, "p": "joint_c", "sig": "f8d", "params": dict(params, **var),
                          "coordscale": 1})
        for e in calls:
            e.update({"eff": e["c"], "dtype": "float64", "backend": "dask", "layout": "C", "seed": 0, "finite": True,
                      "hw": None, "group": "joint", "cost": 1.0, "keep_lazy": True, "caller_writes": False})
        out += calls
        # the joint step: the last call again, computed together with the others
        last = dict(calls[-1], joint=[e["c"] for e in calls[:-1]])
        out.append(last)
    return out


# ----------------------------------------------------------------------------- sessions that REUSE objects
# The histories above rebuild the inputs of every call.  A session of a user keeps objects: ONE kernel array handed to
# several tools, ONE raster / surface DataArray queried again and again.  Hidden state may hang on those objects (memo keyed
# on object identity, arguments or attrs edited in place by an earlier tool).  Reference of every call: the same call in a
# process where every call gets freshly built (equal valued) objects.
SHARED_KERNEL = {"id": "K", "ctor": ["circle_kernel", [1, 1, 1]]}          # the library's own float 3 x 3 cross


def shared_alphabet():
    out = []

    def add(f, p, sig, params, share, **kw):
        c = "%s|%s|%s" % (f, p, sig)
        e = {"c": c, "f": f, "p": p, "sig": sig, "eff": c, "params": params, "dtype": "float64", "backend": "numpy",
             "layout": "C", "seed": 0, "finite": True, "hw": None, "group": "shared", "cost": 1.0, "share": share,
             "caller_writes": False}
        e.update(kw)
        out.append(e)
    # one float kernel object shared by its consumers, on one raster object
    for f, params in (("hotspots", {}), ("focal_stats", {"stats": ["mean", "sum"]}), ("focal_apply", {}), ("convolution_2d", {})):
        add(f, "shK", "f8", params, "R", shared_kernel=SHARED_KERNEL)
    # a lazy Dask convolution built now, computed when the session ends (its graph holds the kernel object)
    add("convolution_2d", "shKlazy", "f8d", {}, "Rd", shared_kernel=SHARED_KERNEL, backend="dask", defer=True)
    # one raster with a non-metre `unit` and float cell sizes (attrs family 6, coordinate spacing 0.5)
    for f, params in (("calc_cellsize", {}), ("slope", {}), ("curvature", {}), ("hillshade", {}), ("get_dataarray_resolution", {}),
                      ("calc_res", {}), ("get_xy_range", {}), ("canvas_like", {})):
        add(f, "shU", "f8", params, "U", attrs_family=6, coordscale=0.25)
    # one surface object (open ground with a full wall in column 3): a query that finds NO route, then solvable ones that
    # cross the cells the failed query closed
    for p, params in (("fail", {"sy": 0, "sx": 0, "gy": 0, "gx": 6, "barriers": [9]}),
                      ("ok1", {"sy": 0, "sx": 0, "gy": 5, "gx": 2, "barriers": [9]}),
                      ("ok2", {"sy": 5, "sx": 0, "gy": 0, "gx": 2, "barriers": [9]}),
                      ("open", {"sy": 0, "sx": 0, "gy": 5, "gx": 6})):
        add("a_star_search", "sh_" + p, "f8", dict(params, _kind="maze"), "S")
    # LAZY Dask results BUILT before other calls of the same function with other parameters and COMPUTED when the session
    # ends (the seeded generators first of all): lazyA (deferred), then afterB (Dask) and afterC (NumPy) with other parameters
    for f, p1, p2 in (("perlin", {"seed": 11}, {"seed": 12}), ("generate_terrain", {"seed": 3}, {"seed": 4}),
                      ("focal_mean", {"passes": 1}, {"passes": 2}), ("proximity", {"max_distance": 4.5}, {"target_values": [3]})):
        add(f, "lazyA", "f8d", p1, None, backend="dask", defer=True)
        if f != "generate_terrain":
            add(f, "afterB", "f8d", p2, None, backend="dask")
        add(f, "afterC", "f8", p2, None)
    return out


def shared_sessions(al):
    """designed sessions (every consumer before and after the suspect tool): -> list of call lists"""
    by = {e["c"]: e for e in al}
    k = ["convolution_2d|shKlazy|f8d", "convolution_2d|shK|f8", "focal_stats|shK|f8", "focal_apply|shK|f8", "hotspots|shK|f8",
         "convolution_2d|shK|f8", "focal_stats|shK|f8", "focal_apply|shK|f8", "hotspots|shK|f8"]
    u = ["slope|shU|f8", "curvature|shU|f8", "get_dataarray_resolution|shU|f8", "calc_cellsize|shU|f8", "calc_cellsize|shU|f8",
         "slope|shU|f8", "curvature|shU|f8", "hillshade|shU|f8", "calc_res|shU|f8", "get_xy_range|shU|f8", "canvas_like|shU|f8",
         "get_dataarray_resolution|shU|f8", "calc_cellsize|shU|f8"]
    s = ["a_star_search|sh_ok1|f8", "a_star_search|sh_fail|f8", "a_star_search|sh_ok1|f8", "a_star_search|sh_ok2|f8",
         "a_star_search|sh_open|f8", "a_star_search|sh_fail|f8", "a_star_search|sh_ok2|f8", "a_star_search|sh_open|f8"]
    lazy = [e["c"] for e in al if e["p"] == "lazyA"] + [e["c"] for e in al if e["p"] in ("afterB", "afterC")]
    return [[by[c] for c in lazy + k + u + s if c in by]]


def unshared(e, n):
    """the same call with freshly built objects (reference)"""
    r = dict(e)
    r.pop("share", None)
    r.pop("defer", None)                 # the reference computes at once
    if r.get("shared_kernel"):
        r["shared_kernel"] = dict(r["shared_kernel"], id="K#%d" % n)
    return r
