"""Core of the /verif harness: TLC runner, batch judge, verdict bookkeeping, evidence.

Everything here is standard library only.  Property drivers (harness/props/cXX.py) build
cases from the *real* code, hand them to TLC through NDJSON files and report what TLC
decided.  A VIOLATION is only ever raised from a TLC verdict (or from a TLC invariant
violation in a trace specification) on an observation of the real implementation.
"""
import hashlib
import json
import os
import re
import shutil
import subprocess
import sys
import tempfile
import time

VERIF = os.path.dirname(os.path.dirname(os.path.abspath(__file__)))
SPEC = os.path.join(VERIF, "spec")
REPO = os.environ.get("VERIF_REPO", "/repo")
TLA_JAR = "/opt/veriftools/tla/tla2tools.jar"
TLA_CP = TLA_JAR + ":/opt/veriftools/tla/CommunityModules-deps.jar"
PY = "/venv/bin/python"
GUARD = "XRSPATIAL_VERIF"

_STATES_RE = re.compile(r"(\d+) states generated, (\d+) distinct states found")
_VERDICT_RE = re.compile(r'<<\s*"VERDICT",\s*(\d+),\s*"([^"]*)"(?:,\s*"([^"]*)")?\s*>>')


class MachineryError(Exception):
    """Something in the checking machinery broke (exit code 2, never a violation)."""


class TLCResult:
    def __init__(self, out, rc, wall):
        self.out = out
        self.rc = rc
        self.wall = wall
        m = _STATES_RE.findall(out)
        self.generated = int(m[-1][0]) if m else 0
        self.distinct = int(m[-1][1]) if m else 0
        self.invariant_violated = re.findall(r"Invariant (\w+) is violated", out)
        self.property_violated = ("Temporal properties were violated" in out or
                                  re.search(r"Temporal property \w+ was violated", out) is not None or
                                  re.findall(r"Action property (\w+) is violated", out) != [])
        self.assume_failed = "Assumption" in out and "is false" in out
        self.deadlock = "Deadlock reached" in out
        self.error = ("Error:" in out and not self.invariant_violated and not self.property_violated
                      and not self.assume_failed and not self.deadlock)
        self.ok = (rc == 0 and not self.error and not self.invariant_violated
                   and not self.property_violated and not self.assume_failed and not self.deadlock)

    def coverage_zero(self):
        """Action names that -coverage reports as never taken."""
        zero = []
        for m in re.finditer(r"<(\w+) line \d+, col \d+ to line \d+, col \d+ of module (\w+)>: (\d+):(\d+)", self.out):
            if m.group(3) == "0" and m.group(4) == "0":
                zero.append(m.group(1))
        return zero


def tla(v):
    """Python value -> TLA+ expression text."""
    if isinstance(v, bool):
        return "TRUE" if v else "FALSE"
    if isinstance(v, int):
        return str(v) if v >= 0 else "(0-%d)" % (-v)
    if isinstance(v, str):
        return '"%s"' % v
    if isinstance(v, (list, tuple)):
        return "<<" + ", ".join(tla(x) for x in v) + ">>"
    if isinstance(v, (set, frozenset)):
        return "{" + ", ".join(tla(x) for x in sorted(v, key=repr)) + "}"
    if isinstance(v, dict):
        return "[" + ", ".join("%s |-> %s" % (k, tla(x)) for k, x in v.items()) + "]"
    raise TypeError(v)


class Raw(str):
    """A TLA+ expression given verbatim as a constant value."""


def cfg_text(constants=None, init=None, next_=None, spec=None, invariants=(), properties=(),
             constraints=(), action_constraints=(), deadlock=False, view=None, postcondition=None,
             symmetry=None):
    lines = []
    if spec:
        lines.append("SPECIFICATION %s" % spec)
    else:
        if init:
            lines.append("INIT %s" % init)
        if next_:
            lines.append("NEXT %s" % next_)
    if constants:
        lines.append("CONSTANTS")
        for k, v in constants.items():
            # every constant is substituted by a definition of the generated MC module
            lines.append("  %s <- mc_%s" % (k, k))
    for i in invariants:
        lines.append("INVARIANT %s" % i)
    for p in properties:
        lines.append("PROPERTY %s" % p)
    for c in constraints:
        lines.append("CONSTRAINT %s" % c)
    for c in action_constraints:
        lines.append("ACTION_CONSTRAINT %s" % c)
    if view:
        lines.append("VIEW %s" % view)
    if symmetry:
        lines.append("SYMMETRY %s" % symmetry)
    if postcondition:
        lines.append("POSTCONDITION %s" % postcondition)
    lines.append("CHECK_DEADLOCK %s" % ("TRUE" if deadlock else "FALSE"))
    return "\n".join(lines) + "\n"


def write_mc(wd, module, constants):
    """Write MC_<module>.tla extending `module` with one definition mc_<K> per constant."""
    if not constants:
        return module
    mc = "MC_" + module
    with open(os.path.join(wd, mc + ".tla"), "w") as f:
        f.write("---- MODULE %s ----\nEXTENDS %s\n" % (mc, module))
        for k, v in constants.items():
            f.write("mc_%s == %s\n" % (k, v if isinstance(v, Raw) else tla(v)))
        f.write("====\n")
    return mc


class Ctx:
    """One run of one property's check."""

    def __init__(self, prop_id, tier="quick", seed=0, selftest=False, replay=None):
        self.prop_id = prop_id
        self.tier = tier
        self.seed = seed
        self.selftest = selftest
        self.replay = replay
        self.t0 = time.time()
        self.scratch = tempfile.mkdtemp(prefix="verif_%s_" % prop_id)
        if not replay:
            shutil.rmtree(os.path.join(VERIF, "replay", prop_id), ignore_errors=True)   # replay files of THIS run only
        self.states = 0
        self.transitions = 0
        self.traces = 0
        self.evaluations = 0
        self.nontrivial_keys = set()
        self.samples = []
        self.violations = []       # (key, clause, replay_path)
        self.known_hits = {}       # key -> count
        self.drift = []
        self.borderline = 0
        self.notes = []
        self.mc_runs = []
        self.judge_runs = []
        self.judge_extra = {}
        self.negatives = []
        self.exhaustive = False
        self.rule = ""
        self.assumptions = []
        self.extra = {}
        self._n = 0
        with open(os.path.join(VERIF, "known_findings.json")) as f:
            kf = json.load(f)
        self.known = {e["key"]: e for e in kf["findings"]
                      if e["property"] == prop_id and e.get("status") == "known"}

    # ------------------------------------------------------------------ tiers
    def pick(self, quick, thorough):
        return thorough if self.tier == "thorough" else quick

    # ------------------------------------------------------------------ TLC
    def _tlc(self, module, cfg, name, workers, timeout, env, extra, constants=None):
        self._n += 1
        wd = os.path.join(self.scratch, "%02d_%s" % (self._n, name))
        os.makedirs(wd)
        # flat copy of the spec tree so EXTENDS/INSTANCE resolve
        for fn in os.listdir(SPEC):
            if fn.endswith(".tla"):
                shutil.copy(os.path.join(SPEC, fn), wd)
        module = write_mc(wd, module, constants)
        cfgp = os.path.join(wd, "%s__%s.cfg" % (module, name))
        with open(cfgp, "w") as f:
            f.write(cfg)
        cmd = ["java", "-XX:+UseParallelGC", "-Xmx6g", "-cp", TLA_CP, "tlc2.TLC",
               "-metadir", os.path.join(wd, "meta"), "-noGenerateSpecTE",
               "-workers", str(workers), "-config", cfgp] + list(extra) + [module + ".tla"]
        e = dict(os.environ)
        if env:
            e.update(env)
        t = time.time()
        try:
            p = subprocess.run(cmd, cwd=wd, env=e, stdout=subprocess.PIPE, stderr=subprocess.STDOUT,
                               timeout=timeout, text=True)
            out, rc = p.stdout, p.returncode
        except subprocess.TimeoutExpired as ex:
            subprocess.run(["pkill", "-f", wd], check=False)
            raise MachineryError("TLC timeout after %ss on %s/%s" % (timeout, module, name)) from ex
        res = TLCResult(out, rc, time.time() - t)
        res.wd = wd
        with open(os.path.join(wd, "tlc.out"), "w") as f:
            f.write(out)
        return res

    def model_check(self, module, cfg, name, workers=16, timeout=3600, expect="ok", extra=(),
                    coverage=False, env=None, constants=None):
        """M: exhaustive TLC run.  expect='ok' -> must pass; expect='violation' -> a negative twin,
        TLC must find a violation (vacuity guard)."""
        if isinstance(cfg, dict):
            constants = cfg.get("constants")
            cfg = cfg_text(**cfg)
        ex = list(extra)
        if coverage:
            ex += ["-coverage", "1"]
        res = self._tlc(module, cfg, name, workers, timeout, env, ex, constants)
        if res.error:
            raise MachineryError("TLC error in %s/%s:\n%s" % (module, name, res.out[-3000:]))
        rec = {"module": module, "config": name, "states_generated": res.generated,
               "distinct_states": res.distinct, "wall_s": round(res.wall, 1), "expect": expect}
        if expect == "ok":
            completed = "Model checking completed. No error has been found." in res.out
            if not res.ok or not completed:
                why = ("invariant %s violated" % res.invariant_violated if res.invariant_violated else
                       "temporal/action property violated" if res.property_violated else
                       "assumption false" if res.assume_failed else
                       "deadlock" if res.deadlock else "TLC did not complete (killed / out of memory?)")
                raise MachineryError("positive model run %s/%s failed: %s\n%s" % (module, name, why, res.out[-1500:]))
            self.states += res.distinct
            self.transitions += res.generated
            rec["ok"] = True
            self.mc_runs.append(rec)
            if coverage:
                z = res.coverage_zero()
                if z:
                    rec["actions_never_taken"] = z
        else:
            found = bool(res.invariant_violated or res.property_violated or res.assume_failed)
            rec["violation_found"] = found
            self.negatives.append(rec)
            if not found:
                raise MachineryError("negative twin %s/%s was NOT rejected by TLC (vacuous invariant?)"
                                     % (module, name))
        return res

    def judge(self, module, cases, name="judge", constants=None, workers=1, timeout=3600,
              stateful=False, cfg=None, parallel=1, env=None, count_traces=True):
        """T/R: hand observations of the real code to TLC; TLC prints one
        <<"VERDICT", i, clause>> per case ("ok" = accepted).  Returns {index: clause}.
        `parallel` > 1 splits the batch over several JVMs."""
        if not cases:
            return {}
        if isinstance(cfg, dict):
            constants = cfg.get("constants")
            cfg = cfg_text(**cfg)
        if cfg is None:
            cfg = cfg_text(constants=constants, spec="Spec" if stateful else None)
        n = len(cases)
        parallel = max(1, min(parallel, (n + 199) // 200))
        bounds = [(i * n // parallel, (i + 1) * n // parallel) for i in range(parallel)]
        procs = []
        self._n += 1
        base = os.path.join(self.scratch, "%02d_%s" % (self._n, name))
        os.makedirs(base)
        for bi, (lo, hi) in enumerate(bounds):
            wd = os.path.join(base, "b%d" % bi)
            os.makedirs(wd)
            for fn in os.listdir(SPEC):
                if fn.endswith(".tla"):
                    shutil.copy(os.path.join(SPEC, fn), wd)
            cp = os.path.join(wd, "cases.ndjson")
            with open(cp, "w") as f:
                for c in cases[lo:hi]:
                    f.write(json.dumps(c, separators=(",", ":")) + "\n")
            mcmod = write_mc(wd, module, constants)
            cfgp = os.path.join(wd, "judge.cfg")
            with open(cfgp, "w") as f:
                f.write(cfg)
            cmd = ["java", "-XX:+UseParallelGC", "-Xmx3g", "-Xss64m", "-cp", TLA_CP, "tlc2.TLC",
                   "-metadir", os.path.join(wd, "meta"), "-noGenerateSpecTE",
                   "-workers", str(workers), "-config", cfgp, mcmod + ".tla"]
            e = dict(os.environ)
            e["VERIF_CASES"] = cp
            if env:
                e.update(env)
            outp = open(os.path.join(wd, "tlc.out"), "w")
            procs.append((subprocess.Popen(cmd, cwd=wd, env=e, stdout=outp, stderr=subprocess.STDOUT),
                          outp, wd, lo, hi))
        verdicts = {}
        t = time.time()
        for p, outp, wd, lo, hi in procs:
            try:
                p.wait(timeout=max(1, timeout - (time.time() - t)))
            except subprocess.TimeoutExpired as ex:
                for q in procs:
                    q[0].kill()
                raise MachineryError("TLC judge timeout on %s/%s" % (module, name)) from ex
            outp.close()
            out = open(os.path.join(wd, "tlc.out")).read()
            res = TLCResult(out, p.returncode, 0)
            got = {}
            for m in _VERDICT_RE.finditer(out):
                i = int(m.group(1))
                cl = m.group(2)
                # keep the first non-ok verdict if a case is reported more than once
                if i not in got or (got[i] == "ok" and cl != "ok"):
                    got[i] = cl
                    self.judge_extra[lo + i - 1] = m.group(3)
            if len(got) != hi - lo or res.error and not got:
                raise MachineryError("TLC judge %s/%s: %d verdicts for %d cases\n%s"
                                     % (module, name, len(got), hi - lo, out[-3000:]))
            if stateful:
                self.states += res.distinct
                self.transitions += res.generated
            for i, cl in got.items():
                verdicts[lo + i - 1] = cl
        if count_traces:
            self.traces += n
        self.judge_runs.append({"module": module, "name": name, "cases": n,
                                "rejected": sum(1 for v in verdicts.values() if v != "ok"),
                                "wall_s": round(time.time() - t, 1)})
        return verdicts

    def simulate(self, module, cfg, name, num, depth, seed=None, timeout=600, env=None, constants=None):
        """TLC -simulate writing one behaviour per file; returns list of file paths."""
        if isinstance(cfg, dict):
            constants = cfg.get("constants")
            cfg = cfg_text(**cfg)
        self._n += 1
        wd = os.path.join(self.scratch, "%02d_%s" % (self._n, name))
        os.makedirs(wd)
        for fn in os.listdir(SPEC):
            if fn.endswith(".tla"):
                shutil.copy(os.path.join(SPEC, fn), wd)
        module = write_mc(wd, module, constants)
        cfgp = os.path.join(wd, "sim.cfg")
        with open(cfgp, "w") as f:
            f.write(cfg)
        os.makedirs(os.path.join(wd, "sim"))
        cmd = ["java", "-XX:+UseParallelGC", "-cp", TLA_CP, "tlc2.TLC", "-metadir", os.path.join(wd, "meta"),
               "-noGenerateSpecTE", "-workers", "1", "-config", cfgp,
               "-simulate", "file=%s,num=%d" % (os.path.join(wd, "sim", "tr"), num),
               "-depth", str(depth), "-seed", str(self.seed if seed is None else seed), module + ".tla"]
        e = dict(os.environ)
        if env:
            e.update(env)
        p = subprocess.run(cmd, cwd=wd, env=e, stdout=subprocess.PIPE, stderr=subprocess.STDOUT,
                           timeout=timeout, text=True)
        res = TLCResult(p.stdout, p.returncode, 0)
        if res.error:
            raise MachineryError("TLC simulate error %s/%s:\n%s" % (module, name, p.stdout[-3000:]))
        files = sorted(os.path.join(wd, "sim", f) for f in os.listdir(os.path.join(wd, "sim")))
        return files

    # ------------------------------------------------------------------ bookkeeping
    def sample(self, obj, limit=6):
        if len(self.samples) < limit:
            self.samples.append(obj)

    def nontrivial(self, key):
        self.nontrivial_keys.add(key if isinstance(key, (str, int, tuple)) else json.dumps(key, sort_keys=True))

    def note(self, s):
        self.notes.append(s)
        print("NOTE: " + s, flush=True)

    def report_drift(self, what):
        self.drift.append(what)
        if len(self.drift) <= 10:
            print("DRIFT: property=%s %s" % (self.prop_id, what), flush=True)

    def violation(self, key, clause, case, what=""):
        """The abstract property failed on an observation of the real code.
        key identifies the failing class for known_findings.json."""
        if key in self.known:
            self.known_hits[key] = self.known_hits.get(key, 0) + 1
            return False
        blob = json.dumps({"property": self.prop_id, "key": key, "clause": clause, "what": what,
                           "case": case}, sort_keys=True, default=str)
        h = hashlib.sha1(blob.encode()).hexdigest()[:12]
        d = os.path.join(VERIF, "replay", self.prop_id)
        os.makedirs(d, exist_ok=True)
        path = os.path.join(d, "%s.json" % h)
        if len(self.violations) < 40:
            with open(path, "w") as f:
                f.write(blob)
        self.violations.append((key, clause, path))
        if len(self.violations) <= 20:
            # ids starting with X are specification-coverage extras (not listed properties): same exit code,
            # but never a VIOLATION line for a property id that does not exist
            head = "NONCONFORMANCE extra" if self.prop_id.startswith("X") else "VIOLATION property"
            print("%s=%s replay=%s   # clause=%s key=%s %s"
                  % (head, self.prop_id, path, clause, key, what), flush=True)
        return True

    # ------------------------------------------------------------------ finish
    def finish(self):
        for key, n in sorted(self.known_hits.items()):
            print("KNOWN-FINDING: property=%s %s (%d cases; key=%s)"
                  % (self.prop_id, self.known[key]["what"], n, key), flush=True)
        cov = {
            "states": self.states,
            "transitions": self.transitions,
            "traces_validated_against_impl": self.traces,
            "samples": self.samples or [{"note": "no sample recorded"}],
            "evaluations": max(self.evaluations, self.traces),
            "distinct_nontrivial": len(self.nontrivial_keys),
            "rule": self.rule,
            "exhaustive": self.exhaustive,
            "model_check_runs": self.mc_runs,
            "negative_twins_rejected": self.negatives,
            "judge_batches": self.judge_runs,
            "borderline_skipped": self.borderline,
            "drift": self.drift[:20],
            "known_findings_hit": self.known_hits,
            "notes": self.notes,
        }
        cov.update(self.extra)
        ev = {
            "property_id": self.prop_id,
            "tier": self.tier,
            "seed": self.seed,
            "level": "model_checking",
            "coverage": cov,
            "assumptions": self.assumptions,
            "wall_s": round(time.time() - self.t0, 1),
            "violations": len(self.violations),
        }
        os.makedirs(os.path.join(VERIF, "evidence"), exist_ok=True)
        evname = "%s.json" % self.prop_id if not self.replay else "%s.replay.json" % self.prop_id
        if os.path.realpath(REPO) != "/repo":
            # a development run against a scratch copy (VERIF_REPO): never overwrite the registered evidence
            evname = "%s.scratch.json" % self.prop_id
        evdir = os.path.join(VERIF, "evidence_extras" if self.prop_id.startswith("X") else "evidence")
        os.makedirs(evdir, exist_ok=True)
        with open(os.path.join(evdir, evname), "w") as f:
            json.dump(ev, f, indent=1, default=str)
        self.cleanup()
        print("%s %s: states=%d transitions=%d traces=%d nontrivial=%d violations=%d known=%d drift=%d wall=%.0fs"
              % (self.prop_id, self.tier, self.states, self.transitions, self.traces,
                 len(self.nontrivial_keys), len(self.violations), sum(self.known_hits.values()),
                 len(self.drift), time.time() - self.t0), flush=True)
        return 1 if self.violations else 0

    def cleanup(self):
        if os.environ.get("VERIF_KEEP") == "1":
            print("scratch kept at " + self.scratch)
        else:
            shutil.rmtree(self.scratch, ignore_errors=True)


# ---------------------------------------------------------------------- helpers for drivers

def run_worker(script_args, env=None, timeout=3600, input_obj=None):
    """Run a python worker under /venv/bin/python with the repo on sys.path; returns parsed JSON lines."""
    e = dict(os.environ)
    e.setdefault("PYTHONHASHSEED", "0")
    e["PYTHONPATH"] = REPO + os.pathsep + VERIF + os.pathsep + e.get("PYTHONPATH", "")
    e[GUARD] = "1"
    if env:
        e.update(env)
    p = subprocess.run([PY] + list(script_args), env=e, stdout=subprocess.PIPE, stderr=subprocess.PIPE,
                       text=True, timeout=timeout, cwd=VERIF,
                       input=json.dumps(input_obj) if input_obj is not None else None)
    if p.returncode != 0:
        raise MachineryError("worker %s failed rc=%d\n%s" % (script_args, p.returncode, p.stderr[-4000:]))
    return p.stdout


def parse_sim_file(path):
    """Parse a behaviour file written by `tlc -simulate file=...`: returns list of (action, state-dict-text)."""
    txt = open(path).read()
    steps = []
    for m in re.finditer(r"\\\* <?([A-Za-z_0-9 ]+?)(?: line[^>]*)?>?\s*\nSTATE_(\d+) ==\s*\n(.*?)(?=\n\n|\Z)", txt, re.S):
        steps.append((m.group(1).strip(), int(m.group(2)), m.group(3)))
    return steps


def run_jobs(worker, jobs, nproc=16, env=None, timeout=3600, chunk=None):
    """Fan a job list out over worker processes (python -m harness.workers.<worker>, stdin {"jobs": [...]},
    stdout NDJSON, one line per job, same order).  Returns the list of decoded result records."""
    if not jobs:
        return []
    nproc = max(1, min(nproc, len(jobs)))
    e = dict(os.environ)
    e.setdefault("PYTHONHASHSEED", "0")
    e["PYTHONPATH"] = REPO + os.pathsep + VERIF + os.pathsep + e.get("PYTHONPATH", "")
    e[GUARD] = "1"
    e.setdefault("NUMBA_NUM_THREADS", "1")
    e.setdefault("OMP_NUM_THREADS", "1")
    if env:
        e.update(env)
    parts = [jobs[i::nproc] for i in range(nproc)]
    procs = []
    for part in parts:
        p = subprocess.Popen([PY, "-m", "harness.workers." + worker], env=e, cwd=VERIF,
                             stdin=subprocess.PIPE, stdout=subprocess.PIPE, stderr=subprocess.PIPE, text=True)
        procs.append(p)
    import threading
    outs = [None] * nproc

    def feed(i):
        try:
            outs[i] = procs[i].communicate(json.dumps({"jobs": parts[i]}), timeout=timeout)
        except subprocess.TimeoutExpired:
            procs[i].kill()
            outs[i] = ("", "timeout")
    ths = [threading.Thread(target=feed, args=(i,)) for i in range(nproc)]
    for t in ths:
        t.start()
    for t in ths:
        t.join()
    res = [None] * len(jobs)
    for i in range(nproc):
        so, se = outs[i]
        lines = [ln for ln in so.splitlines() if ln.startswith("{")]
        if procs[i].returncode != 0 or len(lines) != len(parts[i]):
            raise MachineryError("worker %s part %d rc=%s got %d/%d lines\n%s"
                                 % (worker, i, procs[i].returncode, len(lines), len(parts[i]), se[-3000:]))
        for k, ln in enumerate(lines):
            res[i + k * nproc] = json.loads(ln)
    return res
