"""Shared catalogue for C10 (Aliasing) and C11 (History): the public surface of xrspatial as a table
of *calls*, builders of input rasters in every (backend, dtype, layout) configuration, and the
observation helpers (digests of values / coordinates / attributes, buffer identity, write probe).

Nothing here decides a property: it only runs the real library and encodes what it sees.  The
exception table (which function may do what) lives in spec/Aliasing.tla as spec data.

Runs inside worker processes (needs numpy/xarray/xrspatial); the drivers import only the pure
python tables at the bottom (FUNC_NAMES, VARIANTS ...) through `catalog_meta()`.
"""
import hashlib
import sys
import warnings

DTYPES = ["int8", "int16", "int32", "int64", "uint8", "uint16", "uint32", "uint64", "float32", "float64"]
LAYOUTS = ["C", "F", "strided", "readonly"]
BACKENDS = ["numpy", "dask"]
H, W = 6, 7


def _np():
    import numpy as np
    return np


# ----------------------------------------------------------------------------- input rasters

def base_values(kind, seed=0, h=H, w=W):
    """Deterministic small non-negative integer pattern (fits int8) as float64."""
    np = _np()
    r = np.arange(h).reshape(h, 1)
    c = np.arange(w).reshape(1, w)
    if kind == "elev":
        v = ((r * 5 + c * 3 + seed) % 11) * 3 + (r * c + seed) % 7 + 1
    elif kind == "zones":
        v = (r // 3) * 2 + (c // 4) + 0 * seed
    elif kind == "izones":          # zones 1..4 (0 is zonal.apply's nodata)
        v = (r // 3) * 2 + (c // 4) + 1
        v = v.copy()
        v[0, 0] = 0
    elif kind == "targets":
        v = np.zeros((h, w))
        for (y, x, t) in ((1, 2, 3), (4, 5, 5), (2, 0, 3), (5, 1, 7), (0, 6, 5)):
            if y < h and x < w:
                v[y, x] = t + (seed % 2)
    elif kind == "border0":
        v = ((r * 5 + c * 3 + seed) % 11) + 1
        v = v.copy()
        v[0, :] = 0
        v[:, 0] = 0
        v[h - 2:, :] = 0
        v[:, w - 1] = 0
    elif kind == "surface":
        v = ((r * 2 + c + seed) % 5) + 1
    elif kind == "cats":
        v = ((r + 2 * c + seed) % 3) * 10 + 10
    elif kind == "const":
        v = 5 + 0 * (r + c)
    elif kind == "maze":                  # open ground (1) with a full wall (9) in column 3
        v = 1 + 0 * (r + c)
        v = v.copy()
        v[:, 3] = 9
    else:
        raise ValueError(kind)
    return np.asarray(v, dtype=np.float64) + np.zeros((h, w))


def lay(arr, layout):
    """arr (C-contiguous ndarray) -> same values in the requested memory layout."""
    np = _np()
    if layout == "C":
        out = np.ascontiguousarray(arr).copy()
    elif layout == "F":
        out = np.asfortranarray(arr).copy(order="F")
    elif layout == "strided":
        h, w = arr.shape[-2:]
        big = np.full(arr.shape[:-2] + (h + 2, 2 * w + 3), 99, dtype=arr.dtype)
        view = big[..., 1:1 + h, 1:1 + 2 * w:2]
        view[...] = arr
        out = view
        assert not out.flags.c_contiguous and not out.flags.f_contiguous
    elif layout == "readonly":
        out = np.ascontiguousarray(arr).copy()
        out.flags.writeable = False
    else:
        raise ValueError(layout)
    return out


def std_coords(h=H, w=W):
    np = _np()
    return {"y": np.arange(h, 0, -1).astype(np.float64) * 2.0, "x": np.arange(w).astype(np.float64) * 2.0 + 10.0}


def std_attrs(family=0):
    """attrs of an input raster.  `res` comes in the shapes found in the wild (family): 0 a 2-tuple of Python floats, 1 a scalar
    (what bump() / datashader emit), 2 a list, 3 a 3-tuple, 4 a string, 5 a 2-tuple of NumPy scalars; next to unrelated attrs
    (crs, units, nested list / dict).  The cell size is 2.0 in every family (families 3-5 fall back to the coordinates)."""
    np = _np()
    res = {0: (2.0, 2.0), 1: 2.0, 2: [2.0, 2.0], 3: (2.0, 2.0, 1.0), 4: "2 m", 5: (np.float32(2.0), np.float64(2.0)),
           6: (0.5, 0.5)}[family]
    at = {"res": res, "crs": "EPSG:3857", "units": "m", "nodatavals": [-9999.0],
          "meta": {"source": "verif", "tags": ["a", "b"]}}
    if family == 6:
        at["unit"] = "km"                # a non-metre `unit` with float cell sizes (use coordscale=0.25: spacing 0.5)
    return at


def mk_raster(kind, dtype, layout="C", backend="numpy", seed=0, nan=False, name="r", h=H, w=W, chunks=(4, 4),
              frac=False, coordscale=1, attrs_family=0, degen=None):
    """-> (DataArray, mem) where mem is the numpy array that backs it (for dask: the from_array source)."""
    np = _np()
    import xarray as xr
    v = base_values(kind, seed, h, w)
    dt = np.dtype(dtype)
    if dt.kind == "f" and frac and kind == "elev":
        # non-dyadic fractions: sums of them round, so a changed summation order (thread count) is visible
        v = v + 0.1 * (np.arange(h).reshape(h, 1) % 3) + 0.013 * np.arange(w).reshape(1, w)
    if dt.kind == "f" and nan:
        v = v.copy()
        v[0, 0] = np.nan
        v[h - 1, w - 1] = np.nan
        v[0, w - 1] = np.inf
        v[h - 1, 0] = -np.inf
    # degenerate value families: every cell NaN (float rasters), one constant, all zero
    if degen == "allnan" and dt.kind == "f":
        v = np.full((h, w), np.nan)
    elif degen == "const":
        v = np.full((h, w), 5.0)
    elif degen == "zero":
        v = np.zeros((h, w))
    mem = lay(v.astype(dt), layout)
    data = mem
    if backend == "dask":
        import dask.array as da
        data = da.from_array(mem, chunks=(h, w) if chunks == "single" else chunks)
    co = std_coords(h, w)
    co = {"y": co["y"] * coordscale, "x": co["x"] * coordscale}
    # besides the index coordinates: two scalar coordinates and a 2-D auxiliary (non-index) coordinate
    coords = {"y": ("y", co["y"]), "x": ("x", co["x"]), "band": 1, "spatial_ref": 0,
              "lat2d": (("y", "x"), co["y"].reshape(h, 1) * 100.0 + co["x"].reshape(1, w))}
    attrs = std_attrs(attrs_family)
    if attrs_family >= 1:
        # metadata about missing data whose value OCCURS in the raster: a tool that "honours" it must not edit the input
        fin = v[np.isfinite(v)]
        cell = fin.flat[min(8, fin.size - 1)] if fin.size else 0.0
        top = fin.max() if fin.size else 0.0
        num = (lambda x: float(x)) if dt.kind == "f" else (lambda x: int(x))
        attrs.update({"nodata": num(cell), "_FillValue": num(cell), "missing_value": num(top), "scale_factor": 1.0,
                      "add_offset": 0.0})
    agg = xr.DataArray(data, dims=["y", "x"], coords=coords, attrs=attrs, name=name)
    return agg, mem


# ----------------------------------------------------------------------------- digests

def _h(b):
    return hashlib.sha1(b).hexdigest()[:12]


def val_digest(a):
    """dtype-independent digest of the values of an ndarray (as float64; NaN canonical)."""
    np = _np()
    a = np.asarray(a)
    if a.dtype.kind in "iub":
        f = a.astype(np.float64)
    elif a.dtype.kind == "f":
        f = a.astype(np.float64)
        f = np.where(np.isnan(f), np.nan, f)      # canonical NaN payload
    else:
        return _h(repr(a.tolist()).encode())
    f = np.ascontiguousarray(f)
    f = f + 0.0                                   # -0.0 stays -0.0 (kept: sign is part of the value)
    return _h(str(f.shape).encode() + f.tobytes())


def exact_digest(a):
    """digest of dtype + shape + raw values (used for results: bit-for-bit repeatability)."""
    np = _np()
    a = np.asarray(a)
    if a.dtype.kind == "f":
        a = np.where(np.isnan(a), np.nan, a).astype(a.dtype)
    if a.dtype.kind == "O":
        return _h(repr(a.tolist()).encode())
    a = np.ascontiguousarray(a)
    return _h((str(a.dtype) + str(a.shape)).encode() + a.tobytes())


def deep_repr(o):
    """Stable deep representation of attrs / defaults (dict order kept: order is observable too)."""
    np = _np()
    if isinstance(o, dict):
        return "{" + ",".join("%s:%s" % (deep_repr(k), deep_repr(v)) for k, v in o.items()) + "}"
    if isinstance(o, (list, tuple)):
        return ("[" if isinstance(o, list) else "(") + ",".join(deep_repr(x) for x in o) + ("]" if isinstance(o, list) else ")")
    if isinstance(o, np.ndarray):
        return "nd:" + exact_digest(o)
    if isinstance(o, float):
        return "f:" + repr(o)
    if isinstance(o, (int, str, bool, type(None), np.generic)):
        return type(o).__name__[0] + ":" + repr(o)
    if callable(o):
        return "fn:" + getattr(o, "__qualname__", getattr(o, "__name__", type(o).__name__))
    return "o:" + type(o).__name__ + ":" + repr(o)


def compute(data, scheduler="synchronous"):
    np = _np()
    if hasattr(data, "compute"):
        return np.asarray(data.compute(scheduler=scheduler))
    return np.asarray(data)


def coords_pairs(obj):
    """[[name, digest, ndim]] sorted by name; digest covers dims, dtype kind and values of the coordinate"""
    out = []
    for k in sorted(map(str, obj.coords)):
        c = obj.coords[k]
        v = c.values
        out.append([k, _h((str(c.dims) + "|" + val_digest(v)).encode()), int(c.ndim)])
    return out


def attrs_pairs(obj):
    return [[str(k), _h(deep_repr(obj.attrs[k]).encode())] for k in obj.attrs]


def backend_of(data):
    np = _np()
    if isinstance(data, np.ndarray):
        return "numpy"
    mod = type(data).__module__
    if mod.startswith("dask"):
        return "dask"
    return mod.split(".")[0]


# ----------------------------------------------------------------------------- kernels and small arguments

def kernel(name):
    np = _np()
    if isinstance(name, np.ndarray):
        return name                      # an existing kernel object (shared by the calls of a C11 session)
    if name == "one1":
        return np.ones((1, 1), dtype=np.float64)
    if name == "cross3":
        return np.array([[0, 1, 0], [1, 1, 1], [0, 1, 0]], dtype=np.float64)
    if name == "box3":
        return np.ones((3, 3), dtype=np.float64)
    if name == "row3":
        return np.array([[1, 1, 0]], dtype=np.float64)
    if name == "circle5":
        k = np.zeros((5, 5))
        for i in range(5):
            for j in range(5):
                if (i - 2) ** 2 + (j - 2) ** 2 <= 4:
                    k[i, j] = 1
        return k
    if name == "col3":
        return np.array([[1], [1], [0]], dtype=np.float64)
    raise ValueError(name)


def mods():
    import xrspatial  # noqa
    import importlib
    names = ["aspect", "slope", "curvature", "hillshade", "classify", "convolution", "focal", "multispectral",
             "pathfinding", "perlin", "terrain", "proximity", "viewshed", "zonal", "local", "bump", "utils",
             "analytics", "experimental.polygonize"]
    out = {}
    for n in names:
        importlib.import_module("xrspatial." + n)
        out[n] = sys.modules["xrspatial." + n]
    return out


# ----------------------------------------------------------------------------- the call table
# Each entry: name -> dict(
#   mod, attr        where the public function lives
#   ins              list of (role, kind) of the raster inputs in positional order
#   kw(p, ins)       -> (args, kwargs) given the input DataArrays (list) and the variant parameters p
#   variants         list of parameter dicts; variants[0] is the default for C10
#   only             optional restriction {"backend": [...], "dtype": "float"|"int"|None}
# )
# `cls` (exception class) is deliberately NOT here: it is spec data in Aliasing.tla.

def _only(p, *keys):
    return {k: p[k] for k in keys if k in p}


def _one(kind, **opts):
    return [("agg", kind, opts)]


def _double(x):
    return x * 2


def _plus1(x):
    return x + 1


def _ident(x):
    return x


def _custom_stats():
    """a user's stats_funcs DICT whose keys collide with built-in names but whose functions differ from the built-ins"""
    return {"max": lambda z: float(z.min()) - 1.0, "mean": lambda z: float(z.sum()), "spread": lambda z: float(z.max() - z.min())}


def catalog():
    np = _np()
    M = mods()
    co = std_coords()
    ys, xs = co["y"], co["x"]
    C = {}

    def add(name, mod, attr, ins, kw, variants=({},), **extra):
        C[name] = dict(mod=mod, attr=attr, ins=ins, kw=kw, variants=list(variants), **extra)

    simple = lambda p, ins: ((ins[0],), dict(p))   # noqa
    tiny = [{}, {"_hw": [3, 3], "_corner": 1}]        # 3x3: a single interior cell
    add("slope", "slope", "slope", _one("elev"), simple, variants=tiny)
    add("aspect", "aspect", "aspect", _one("elev"), simple, variants=tiny)
    add("curvature", "curvature", "curvature", _one("elev"), simple, variants=tiny)
    add("hillshade", "hillshade", "hillshade", _one("elev"), simple,
        variants=[{}, {"azimuth": 100, "angle_altitude": 40}, {"_hw": [3, 3], "_corner": 1}])
    add("binary", "classify", "binary", _one("elev", nan=True), lambda p, ins: ((ins[0], p.get("values", [4, 7, 10, 13])), _only(p, "name")),
        variants=[{}, {"values": [1, 2, 3]}, {"values": [], "_corner": 1}])
    add("reclassify", "classify", "reclassify", _one("elev", nan=True),
        lambda p, ins: ((ins[0],), dict(bins=p.get("bins", [5, 15, 40]), new_values=p.get("new", [1, 2, 3]), **_only(p, "name"))),
        variants=[{}, {"bins": [10, 20, 30, 40], "new": [9, 8, 7, 6]},
                  {"bins": list(range(1, 41)), "new": list(range(1, 41)), "_corner": 1}])      # identity reclassification
    add("quantile", "classify", "quantile", _one("elev", nan=True), lambda p, ins: ((ins[0],), dict(k=p.get("k", 4), **_only(p, "name"))),
        variants=[{}, {"k": 3}, {"k": 1, "_corner": 1}])
    add("natural_breaks", "classify", "natural_breaks", _one("elev", nan=True),
        lambda p, ins: ((ins[0],), dict(k=p.get("k", 4), **_only(p, "num_sample", "name"))),
        variants=[{}, {"k": 3}, {"k": 4, "num_sample": 20}])
    add("equal_interval", "classify", "equal_interval", _one("elev", nan=True),
        lambda p, ins: ((ins[0],), dict(k=p.get("k", 4), **_only(p, "name"))), variants=[{}, {"k": 3}, {"k": 1, "_corner": 1}])
    add("convolution_2d", "convolution", "convolution_2d", _one("elev"),
        lambda p, ins: ((ins[0], kernel(p.get("kernel", "cross3"))), _only(p, "name")),
        variants=[{}, {"kernel": "circle5"}, {"kernel": "row3"}, {"kernel": "one1", "_corner": 1}])
    add("focal_mean", "focal", "mean", _one("elev", nan=True),
        lambda p, ins: ((ins[0],), dict({k: v for k, v in p.items() if k != "excludes"},
                                        **({"excludes": [float(e) for e in p["excludes"]]} if "excludes" in p else {}))),
        variants=[{}, {"passes": 2}, {"excludes": [4.0, 7.0]}, {"passes": 0, "_corner": 1}])
    add("focal_apply", "focal", "apply", _one("elev"),
        lambda p, ins: ((ins[0], kernel(p.get("kernel", "cross3"))),
                        dict(({"func": getattr(M["focal"], p["func"])} if "func" in p else {}), **_only(p, "name"))),
        variants=[{}, {"kernel": "circle5"}, {"func": "_calc_max"}, {"kernel": "col3", "func": "_calc_sum"},
                  {"kernel": "one1", "_corner": 1}])
    add("focal_stats", "focal", "focal_stats", _one("elev"),
        lambda p, ins: ((ins[0], kernel(p.get("kernel", "cross3"))),
                        ({"stats_funcs": list(p["stats"])} if "stats" in p else {})),
        variants=[{}, {"stats": ["min", "sum"]}, {"kernel": "box3", "stats": ["mean"]},
                  {"kernel": "one1", "stats": ["mean"], "_corner": 1}])
    add("hotspots", "focal", "hotspots", _one("elev"),
        lambda p, ins: ((ins[0], kernel(p.get("kernel", "cross3"))), {}),
        variants=[{}, {"kernel": "box3"}, {"kernel": "one1", "_corner": 1}])
    for nm, roles in (("arvi", 3), ("evi", 3), ("gci", 2), ("nbr", 2), ("nbr2", 2), ("ndvi", 2), ("ndmi", 2),
                      ("savi", 2), ("sipi", 3), ("ebbi", 3)):
        add(nm, "multispectral", nm, [("b%d" % i, "elev", {"seed": i * 3 + 1}) for i in range(roles)],
            lambda p, ins: (tuple(ins), dict(p)),
            variants=[{}] + ([{"soil_factor": 0.5}] if nm == "savi" else []))
    add("true_color", "multispectral", "true_color", [("b%d" % i, "elev", {"seed": i * 3 + 1}) for i in range(3)],
        lambda p, ins: (tuple(ins), dict(p)), variants=[{}, {"nodata": 5, "c": 8.0}])
    add("a_star_search", "pathfinding", "a_star_search", _one("surface"),
        lambda p, ins: ((ins[0], (ys[p.get("sy", 0)], xs[p.get("sx", 0)]), (ys[p.get("gy", H - 1)], xs[p.get("gx", W - 1)])),
                        dict({k: v for k, v in p.items() if k in ("barriers", "connectivity", "snap_start", "snap_goal")})),
        variants=[{}, {"barriers": [3]}, {"connectivity": 4}, {"barriers": [3, 5], "gy": 2, "gx": 4, "snap_goal": True},
                  {"gy": 0, "gx": 0, "_corner": 1}],                                          # start == goal
        only={"backend": ["numpy"]})
    for nm in ("proximity", "allocation", "direction"):
        add(nm, "proximity", nm, _one("targets"),
            lambda p, ins: ((ins[0],), dict({k: v for k, v in p.items() if k != "target_values"},
                                            **({"target_values": list(p["target_values"])} if "target_values" in p else {}))),
            variants=[{}, {"target_values": [3]}, {"target_values": [5, 7]}, {"max_distance": 4.5},
                      {"distance_metric": "MANHATTAN"}, {"distance_metric": "GREAT_CIRCLE"},
                      {"target_values": [3], "max_distance": 3.0, "distance_metric": "MANHATTAN"}]
            + ([{"max_distance": 0.0, "_corner": 1}] if nm != "direction" else []))
    add("viewshed", "viewshed", "viewshed", _one("elev"),
        lambda p, ins: ((ins[0],), dict(x=xs[p.get("vx", 3)], y=ys[p.get("vy", 2)], observer_elev=p.get("oe", 5),
                                        **({"target_elev": p["te"]} if "te" in p else {}))),
        variants=[{}, {"vx": 0, "vy": 0, "oe": 1}, {"te": 3}], only={"backend": ["numpy"]})
    add("zonal_stats", "zonal", "stats", [("zones", "zones", {}), ("values", "elev", {"nan": True})],
        lambda p, ins: ((ins[0], ins[1]), dict({k: v for k, v in p.items() if k not in ("stats_funcs", "stats_dict")},
                                               **({"stats_funcs": list(p["stats_funcs"])} if "stats_funcs" in p else {}),
                                               **({"stats_funcs": _custom_stats()} if "stats_dict" in p else {}))),
        variants=[{}, {"stats_funcs": ["mean", "max", "min", "sum", "std", "var", "count"]}, {"stats_funcs": ["sum", "count"]},
                  {"zone_ids": [1, 3]}, {"nodata_values": 10}, {"return_type": "xarray.DataArray"}],
        variant_backends={5: ["numpy"]})      # return_type='xarray.DataArray' is NumPy only (the dask path raises)
    add("zonal_crosstab", "zonal", "crosstab", [("zones", "zones", {}), ("values", "cats", {})],
        lambda p, ins: ((ins[0], ins[1]), dict(p)),
        variants=[{}, {"agg": "percentage"}, {"zone_ids": [0, 3]}, {"cat_ids": [10, 30]}])
    add("zonal_apply", "zonal", "apply", [("zones", "izones", {"dtype": "int"}), ("values", "elev", {})],
        lambda p, ins: ((ins[0], ins[1], {"double": _double, "plus1": _plus1, "ident": _ident}[p.get("func", "double")]),
                        _only(p, "nodata")),
        variants=[{}, {"func": "plus1"}, {"func": "ident", "_corner": 1}], only={"backend": ["numpy"]})
    add("regions", "zonal", "regions", _one("zones"), lambda p, ins: ((ins[0],), dict(p)),
        variants=[{}, {"neighborhood": 8}, {"_kind": "const", "_corner": 1}])
    add("trim", "zonal", "trim", _one("border0", nan=True),
        lambda p, ins: ((ins[0],), dict(({"values": tuple(p["values"])} if "values" in p else {}), **_only(p, "name"))),
        variants=[{"values": [0]}, {}, {"values": [0, 1]}, {"values": [0], "_kind": "elev", "_corner": 1}])   # nothing to trim
    add("crop", "zonal", "crop", [("zones", "border0", {}), ("values", "elev", {})],
        lambda p, ins: ((ins[0], ins[1]), dict(zones_ids=tuple(p.get("ids", [1, 2, 3, 4, 5, 6, 7, 8, 9, 10, 11])), **_only(p, "name"))),
        variants=[{}, {"ids": [5]}, {"ids": list(range(1, 41)), "_kind": "elev", "_corner": 1}])          # nothing to crop
    add("polygonize", "experimental.polygonize", "polygonize", _one("zones"),
        lambda p, ins: ((ins[0],), dict(p)), variants=[{}, {"connectivity": 8}, {"_kind": "const", "_corner": 1}],
        only={"backend": ["numpy"]})
    add("polygonize_mask", "experimental.polygonize", "polygonize", [("raster", "zones", {}), ("mask", "surface", {})],
        lambda p, ins: ((ins[0],), dict(mask=ins[1], **p)), variants=[{}], only={"backend": ["numpy"]})
    add("perlin", "perlin", "perlin", _one("elev"), lambda p, ins: ((ins[0],), dict({k: (tuple(v) if k == "freq" else v) for k, v in p.items()})),
        variants=[{}, {"seed": 5}, {"seed": 7}, {"freq": [2, 3]}])
    add("generate_terrain", "terrain", "generate_terrain", _one("elev"),
        lambda p, ins: ((ins[0],), dict({k: (tuple(v) if k.endswith("range") else v) for k, v in p.items()})),
        variants=[{}, {"seed": 10}, {"seed": 3}, {"x_range": [0, 100], "y_range": [0, 50]}, {"zfactor": 100}])
    for nm in ("cell_stats", "combine", "lowest_position", "highest_position"):
        add("local_" + nm, "local", nm, [("ds", "dataset", {})], lambda p, ins: ((ins[0],), dict(p)),
            variants=[{}] + ([{"func": "max"}, {"func": "mean"}] if nm == "cell_stats" else []), only={"backend": ["numpy"]})
    for nm in ("lesser_frequency", "equal_frequency", "greater_frequency", "popularity", "rank"):
        add("local_" + nm, "local", nm, [("ds", "dataset", {})],
            lambda p, ins: ((ins[0], p.get("ref_var", "v0")), {k: v for k, v in p.items() if k != "ref_var"}),
            variants=[{}], only={"backend": ["numpy"]})
    add("summarize_terrain", "analytics", "summarize_terrain", _one("elev"), simple)
    add("canvas_like", "utils", "canvas_like", _one("elev"),
        lambda p, ins: ((ins[0],), dict(width=p.get("width", 4), **{k: (tuple(v) if k.endswith("range") else v)
                                                                   for k, v in p.items() if k != "width"})),
        only={"backend": ["numpy"]})
    add("calc_res", "utils", "calc_res", _one("elev"), simple)
    add("get_dataarray_resolution", "utils", "get_dataarray_resolution", _one("elev"), simple)
    add("get_xy_range", "utils", "get_xy_range", _one("elev"), simple)
    add("calc_cellsize", "convolution", "calc_cellsize", _one("elev"), simple)
    add("validate_arrays", "utils", "validate_arrays", [("a", "elev", {}), ("b", "elev", {"seed": 2, "chunks": (3, 7)})],
        lambda p, ins: (tuple(ins), {}))
    add("color_values", "utils", "color_values", _one("zones"),
        lambda p, ins: ((ins[0], {0: "red", 1: "blue", 2: p.get("c2", "green"), 3: "#ffffff"}), _only(p, "alpha")),
        only={"backend": ["numpy"]})
    add("bands_to_img", "utils", "bands_to_img", [("b%d" % i, "elev", {"seed": i * 3 + 1}) for i in range(3)],
        lambda p, ins: (tuple(ins), {}), only={"backend": ["numpy"]})
    # kernel constructors (no raster input; their results are arrays): C11 only
    CV = M["convolution"]
    add("circle_kernel", "convolution", "circle_kernel", [],
        lambda p, ins: ((p.get("cx", 1), p.get("cy", 1), p.get("radius", 2)), {}))
    add("annulus_kernel", "convolution", "annulus_kernel", [],
        lambda p, ins: ((p.get("cx", 1), p.get("cy", 1), p.get("outer", 2), p.get("inner", 1)), {}))
    add("custom_kernel", "convolution", "custom_kernel", [], lambda p, ins: ((kernel(p.get("kernel", "cross3")),), {}))
    # no raster input: only meaningful for C11 (global RNG consumer)
    add("bump", "bump", "bump", [], lambda p, ins: ((p.get("w", 7), p.get("h", 6)), dict(count=p.get("count", 5), spread=p.get("spread", 1))),
        variants=[{}, {"count": 3, "spread": 2}])
    return C, M


def mk_dataset(dtype, layout, backend, seed=0, h=3, w=4, frac=False):
    """Dataset of three variables for xrspatial.local.* -> (Dataset, [mem arrays])"""
    import xarray as xr
    mems = []
    ds = {}
    for i in range(3):
        a, m = mk_raster("elev" if frac else "surface", dtype, layout, backend, seed=seed + 2 * i, name="v%d" % i, h=h, w=w,
                         chunks=(2, 2) if h == 3 else (h // 3 + 1, w // 2 + 1), frac=frac)
        a = a.drop_vars(["band", "spatial_ref", "lat2d"])
        ds["v%d" % i] = a
        mems.append(m)
    d = xr.Dataset(ds, attrs=std_attrs())
    return d, mems


def public(p):
    """variant parameters without the private keys (_kind: kind of the first raster input, _hw: raster size,
    _corner: marks the do-nothing / identity corner of a function)"""
    return {k: v for k, v in p.items() if not k.startswith("_")}


def build_inputs(entry, dtype, layout, backend, seed=0, h=H, w=W, finite=False, p=None, single_chunk=False, coordscale=1,
                 nonfinite=False, attrs_family=0, degen=None):
    """-> list of (role, xarray object, [mem arrays]).  finite=True: no NaN / inf anywhere (and non-integral float values):
    in-place sorts, cumulative operations and normalisations only bite on all-finite, unsorted inputs."""
    np = _np()
    out = []
    p = p or {}
    if p.get("_hw"):
        h, w = p["_hw"]
    for k, (role, kind, opts) in enumerate(entry["ins"]):
        if k == 0 and p.get("_kind"):
            kind = p["_kind"]
        if kind == "dataset":
            d, mems = (mk_dataset(dtype, layout, backend, seed) if (h, w) == (H, W)
                       else mk_dataset(dtype, layout, backend, seed, h=h, w=w, frac=finite))
            out.append((role, d, mems))
            continue
        dt = dtype
        if opts.get("dtype") == "int" and np.dtype(dtype).kind == "f":
            dt = "int32"
        a, m = mk_raster(kind, dt, layout, backend, seed=seed + opts.get("seed", 0),
                         nan=(opts.get("nan", False) and not finite) or nonfinite, frac=finite, name=role,
                         attrs_family=attrs_family, degen=degen,
                         chunks="single" if single_chunk else opts.get("chunks", (4, 4) if h == H else (h // 3 + 1, w // 2 + 1)),
                         h=h, w=w, coordscale=coordscale)
        out.append((role, a, [m]))
    return out


def catalog_meta():
    """Pure-python view for the drivers: {name: {"nvariants": n, "backends": [...], "nin": k}}"""
    C, _ = catalog()
    return {k: {"mod": v["mod"], "corners": [i for i, q in enumerate(v["variants"]) if q.get("_corner")], "nan_inputs": any(o.get("nan") for _r, _k, o in v["ins"]), "nvariants": len(v["variants"]), "variants": v["variants"], "variant_backends": v.get("variant_backends", {}),
                "backends": (v.get("only") or {}).get("backend", BACKENDS), "nin": len(v["ins"])}
            for k, v in C.items()}


warnings.filterwarnings("ignore")
