"""Process fan-out helpers shared by the C10 / C11 drivers (core.run_jobs round-robins; here the
partitions are chosen by the driver so that expensive first-call JIT compilations are packed sensibly)."""
import json
import os
import subprocess
import threading

from harness import core


def run_partitions(worker, parts, env=None, timeout=3600, envs=None):
    """parts: list of job lists; one worker process per non-empty partition.  envs: optional per-partition env dicts.
    Returns a list (same shape as parts) of result lists."""
    e0 = dict(os.environ)
    e0.setdefault("PYTHONHASHSEED", "0")
    e0["PYTHONPATH"] = core.REPO + os.pathsep + core.VERIF + os.pathsep + e0.get("PYTHONPATH", "")
    e0[core.GUARD] = "1"
    e0.setdefault("NUMBA_NUM_THREADS", "1")
    e0.setdefault("OMP_NUM_THREADS", "1")
    if env:
        e0.update(env)
    procs = []
    for i, part in enumerate(parts):
        if not part:
            procs.append(None)
            continue
        e = dict(e0)
        if envs and envs[i]:
            e.update(envs[i])
        procs.append(subprocess.Popen([core.PY, "-m", "harness.workers." + worker], env=e, cwd=core.VERIF,
                                      stdin=subprocess.PIPE, stdout=subprocess.PIPE, stderr=subprocess.PIPE, text=True))
    outs = [None] * len(parts)

    def feed(i):
        try:
            outs[i] = procs[i].communicate(json.dumps({"jobs": parts[i]}), timeout=timeout)
        except subprocess.TimeoutExpired:
            procs[i].kill()
            outs[i] = ("", "timeout")
    ths = [threading.Thread(target=feed, args=(i,)) for i in range(len(parts)) if procs[i] is not None]
    for t in ths:
        t.start()
    for t in ths:
        t.join()
    res = []
    for i, part in enumerate(parts):
        if not part:
            res.append([])
            continue
        so, se = outs[i]
        lines = [ln for ln in so.splitlines() if ln.startswith("{")]
        if procs[i].returncode != 0 or len(lines) != len(part):
            raise core.MachineryError("worker %s partition %d rc=%s got %d/%d lines\n%s"
                                      % (worker, i, procs[i].returncode, len(lines), len(part), (se or "")[-3000:]))
        res.append([json.loads(ln) for ln in lines])
    return res


def pack(jobs, cost, nproc=16, affinity=None):
    """Greedy longest-processing-time packing.  cost(job) -> seconds; affinity(job) -> key or None: jobs with the
    same key are kept in one partition (their first call pays a large one-off JIT cost)."""
    groups = {}
    singles = []
    for j in jobs:
        k = affinity(j) if affinity else None
        if k is None:
            singles.append(([j], cost(j)))
        else:
            g = groups.setdefault(k, [[], 0.0])
            g[0].append(j)
            g[1] += cost(j)
    items = singles + [(g[0], g[1]) for g in groups.values()]
    items.sort(key=lambda it: -it[1])
    parts = [[] for _ in range(nproc)]
    load = [0.0] * nproc
    for js, c in items:
        i = load.index(min(load))
        parts[i] += js
        load[i] += c
    return parts


def run_pool(worker, parts, env=None, envs=None, nproc=16, timeout=3600):
    """Like run_partitions but with at most `nproc` worker processes alive at a time (dynamic scheduling):
    used when every partition must be its own fresh interpreter."""
    import concurrent.futures as cf
    e0 = dict(os.environ)
    e0.setdefault("PYTHONHASHSEED", "0")
    e0["PYTHONPATH"] = core.REPO + os.pathsep + core.VERIF + os.pathsep + e0.get("PYTHONPATH", "")
    e0[core.GUARD] = "1"
    e0.setdefault("NUMBA_NUM_THREADS", "1")
    e0.setdefault("OMP_NUM_THREADS", "1")
    if env:
        e0.update(env)

    def one(i):
        e = dict(e0)
        if envs and envs[i]:
            e.update(envs[i])
        try:
            p = subprocess.run([core.PY, "-m", "harness.workers." + worker], env=e, cwd=core.VERIF,
                               input=json.dumps({"jobs": parts[i]}), stdout=subprocess.PIPE, stderr=subprocess.PIPE,
                               text=True, timeout=timeout)
        except subprocess.TimeoutExpired:
            raise core.MachineryError("worker %s partition %d timed out" % (worker, i))
        lines = [ln for ln in p.stdout.splitlines() if ln.startswith("{")]
        if p.returncode != 0 or len(lines) != len(parts[i]):
            raise core.MachineryError("worker %s partition %d rc=%s got %d/%d lines\n%s"
                                      % (worker, i, p.returncode, len(lines), len(parts[i]), (p.stderr or "")[-3000:]))
        return [json.loads(ln) for ln in lines]
    with cf.ThreadPoolExecutor(max_workers=nproc) as ex:
        return list(ex.map(one, range(len(parts))))


def repo_fingerprint():
    """sha1 over (path, size, mtime) of the library sources under VERIF_REPO: C10/C11 compare observations made at
    different moments of one run (fresh-interpreter references vs histories), so the library must not change meanwhile."""
    import hashlib
    h = hashlib.sha1()
    root = os.path.join(core.REPO, "xrspatial")
    for d, _dirs, files in sorted(os.walk(root)):
        if "tests" in d.split(os.sep) or "__pycache__" in d:
            continue
        for f in sorted(files):
            if f.endswith(".py"):
                p = os.path.join(d, f)
                st = os.stat(p)
                h.update(("%s|%d|%d\n" % (p, st.st_size, st.st_mtime_ns)).encode())
    return h.hexdigest()[:16]
